#!/bin/sh
# Idempotent offline set-up: overlay venv on top of /venv (which has ovld, editable from /repo/src)
# with crosshair-tool + z3-solver from the offline wheelhouse.
set -e
cd "$(dirname "$0")"
V=.venv
if [ ! -x "$V/bin/python" ] || ! "$V/bin/python" -c "import z3, crosshair" >/dev/null 2>&1; then
  rm -rf "$V"
  /venv/bin/python -m venv "$V"
  echo "import site; site.addsitedir('/venv/lib/python3.12/site-packages')" > "$V/lib/python3.12/site-packages/_base.pth"
  PIP_NO_INDEX=1 "$V/bin/pip" install -q --no-index --find-links /opt/veriftools/wheels crosshair-tool
fi
"$V/bin/python" -c "import z3, crosshair; print('setup ok: z3', z3.get_version_string())"
