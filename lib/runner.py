"""Shared driver: parallel shape exploration, native replay, known findings, evidence, exit codes."""

import hashlib
import json
import multiprocessing as mp
import os
import random
import sys
import time
import traceback

VERIF = os.path.dirname(os.path.dirname(os.path.abspath(__file__)))
# (tools/with_patch points both at its scratch directory so that runs against a mutated copy never touch
#  the evidence and replay files of the real tree)
EVID = os.environ.get("VERIF_EVIDENCE_DIR") or os.path.join(VERIF, "evidence")
REPLAYS = os.environ.get("VERIF_REPLAYS_DIR") or os.path.join(VERIF, "replays")
KNOWN_FILE = os.path.join(VERIF, "known_findings.json")
OVLD_SRC = os.environ.get("OVLD_SRC", "/repo/src")

EXIT_OK, EXIT_VIOLATION, EXIT_HARNESS = 0, 1, 3


def assert_real_code():
    import ovld

    f = os.path.realpath(ovld.__file__)
    want = os.path.realpath(os.path.join(OVLD_SRC, "ovld"))
    if not f.startswith(want + os.sep):
        print(f"HARNESS-ERROR: ovld imported from {f}, expected under {want}")
        sys.exit(EXIT_HARNESS)
    return f


def load_known(pid):
    try:
        with open(KNOWN_FILE) as fh:
            data = json.load(fh)
    except FileNotFoundError:
        return []
    return [e for e in data.get("findings", []) if e.get("property") == pid or pid in e.get("also_affects", ())]


def active_known_ids(pid):
    return {e["id"] for e in load_known(pid) if e.get("status") == "known"}


# ---------------------------------------------------------------------------
# which ovld functions ran under symbolic control ("functions encoded")


class FunctionTrace:
    TOOL = 3

    def __init__(self):
        self.names = set()
        self.on = False

    def __enter__(self):
        mon = sys.monitoring
        try:
            mon.use_tool_id(self.TOOL, "symx-ftrace")
        except ValueError:
            return self
        self.on = True
        root = os.path.join(os.path.realpath(OVLD_SRC), "ovld") + os.sep

        def cb(code, off):
            fn = code.co_filename
            if fn.startswith(root):
                self.names.add(f"{os.path.basename(fn)}:{code.co_qualname}")
            elif fn.startswith("<ovld"):
                self.names.add(f"<generated>:{code.co_name.split('[')[0].split('.')[-1]}")
            return mon.DISABLE

        mon.register_callback(self.TOOL, mon.events.PY_START, cb)
        mon.set_events(self.TOOL, mon.events.PY_START)
        return self

    def __exit__(self, *a):
        if self.on:
            mon = sys.monitoring
            mon.set_events(self.TOOL, 0)
            mon.register_callback(self.TOOL, mon.events.PY_START, None)
            mon.free_tool_id(self.TOOL)
            mon.restart_events()
        return False


# ---------------------------------------------------------------------------
# symbolic exploration of one shape, with replay of candidates and validation of passes


def explore_symbolic(make_world, make_run, shape, *, seed=0, max_paths=10**9, deadline=None,
                     validate=0, timeout_ms=30000, trace_first=True, validate_mode="observations"):
    """make_world(ex, shape, real) -> W ; make_run(W, shape) -> run(ctx) -> Verdict.
    Returns a JSON-able result dict."""
    from symx.engine import Explorer

    ex = Explorer(timeout_ms=timeout_ms, seed=seed)
    if os.environ.get("VERIF_XCHECK"):
        ex.xsample, ex.xsample_max, ex.xsample_every = [], 2, 3
    W = make_world(ex, shape, False)
    run = make_run(W, shape)
    ftrace = FunctionTrace()
    state = dict(first=trace_first)
    rng = random.Random(seed * 7919 + 13)
    to_validate = []

    def run1(ctx):
        if state["first"]:
            state["first"] = False
            with ftrace:
                return run(ctx)
        return run(ctx)

    def on_path(ctx, model, vd):
        if validate and (len(to_validate) < validate or rng.random() < 0.02):
            item = (ctx.assignment(model), vd.info, vd.tags)
            if len(to_validate) < validate:
                to_validate.append(item)
            else:
                to_validate[rng.randrange(validate)] = item

    stats, cands = ex.explore(run1, max_paths=max_paths, deadline=deadline,
                              on_path=on_path if validate else None)
    res = dict(shape=shape, stats=stats, violations=[], harness_errors=[], validated=0,
               functions=sorted(ftrace.names))

    import inspect as _inspect

    takes_info = "replay_info" in _inspect.signature(make_run).parameters

    def replay(assignment, info=None):
        ex2 = Explorer(timeout_ms=timeout_ms, seed=seed, forced=assignment)
        # declare forced vars up front so that their equalities are asserted
        import z3

        for name, v in assignment.items():
            ex2.declare(z3.Bool(name) if isinstance(v, bool) else z3.Int(name))
        W2 = make_world(ex2, shape, True)
        run2 = make_run(W2, shape, replay_info=info) if takes_info else make_run(W2, shape)
        st2, c2 = ex2.explore(run2, max_paths=1)
        return st2, c2, W2

    from symx import world as _world0

    for c in cands[:5]:
        realisation = "inheritance"
        try:
            st2, c2, W2 = replay(c["assignment"], c["info"])
            for _retry in range(3):
                if c2:
                    break
                # ovld iterates sets of freshly created function objects: which of several equivalent methods comes first varies from one
                # build to the next, and some violations only show for one of the orders -- the replay is repeated on fresh objects
                st2, c2, W2 = replay(c["assignment"], c["info"])
            if not c2:
                # not reproduced on classes related by inheritance: the same relation realised through ABC.register
                # (virtual subclasses) is an equally legitimate user hierarchy -- code that reads __mro__ / __bases__
                # instead of asking issubclass shows up only there
                _world0.REAL_MODE[0] = "abc"
                try:
                    st3, c3, W3 = replay(c["assignment"], c["info"])
                finally:
                    _world0.REAL_MODE[0] = "inherit"
                if c3:
                    st2, c2, W2, realisation = st3, c3, W3, "abc.ABC.register (virtual subclasses)"
        except Exception:  # noqa: BLE001
            _world0.REAL_MODE[0] = "inherit"
            res["harness_errors"].append(dict(shape=shape, assignment=c["assignment"],
                                              error=traceback.format_exc()[-800:]))
            continue
        if c2:
            res["violations"].append(dict(shape=shape, assignment=c["assignment"], realisation=realisation,
                                          world=W2.describe(c["assignment"]) if hasattr(W2, "describe") else None,
                                          symbolic_run=c["info"], native_run=c2[0]["info"]))
        else:
            res["harness_errors"].append(dict(shape=shape, assignment=c["assignment"], symbolic_run=c["info"],
                                              native_run=st2["samples"][:1],
                                              error="counterexample did not reproduce natively"))
    res["n_candidates"] = len(cands)
    if stats.get("xsamples"):
        from symx.engine import cross_check

        res["xcheck"] = cross_check(stats.pop("xsamples"))
    else:
        stats.pop("xsamples", None)
    # known findings: replay one witness each natively
    for k, ks in stats["known_seen"].items():
        w = ks.get("witness")
        ks["reproduced"] = None
        if w is not None:
            try:
                st2, c2, W2 = replay_known(make_world, make_run, shape, w["assignment"], seed, timeout_ms)
                ks["reproduced"] = st2
                ks["world"] = W2.describe(w["assignment"]) if hasattr(W2, "describe") else None
            except Exception:  # noqa: BLE001
                ks["reproduced"] = False
                ks["error"] = traceback.format_exc()[-400:]
    # validation of passing paths: same inputs, real classes, no stubs -> same observations
    from symx import world as _world

    for vi, (assignment, info, tags) in enumerate(to_validate):
        # thorough tier: every second validation replay realises the hierarchy through ABC registration instead of
        # inheritance (classes with has-method facts keep inheritance: virtual subclasses do not inherit attributes)
        use_abc = bool(os.environ.get("VERIF_ABC")) and vi % 2 == 1
        _world.REAL_MODE[0] = "abc" if use_abc else "inherit"
        try:
            st2, c2, W2 = replay(assignment)
        except Exception:  # noqa: BLE001
            res["harness_errors"].append(dict(shape=shape, assignment=assignment,
                                              error="validation replay crashed: " + traceback.format_exc()[-600:]))
            continue
        finally:
            _world.REAL_MODE[0] = "inherit"
        nat = st2["samples"][0] if st2["samples"] else None
        if validate_mode == "verdict":
            # method sets whose outcome legitimately depends on set order (recorded C06/C12 findings): the native
            # run need not observe the same thing, it must satisfy the property
            if c2:
                res["violations"].append(dict(shape=shape, assignment=assignment, world=W2.describe(assignment),
                                              symbolic_run=info, native_run=c2[0]["info"]))
            else:
                res["validated"] += 1
        elif _strip(nat) != _strip(info) and c2:
            # the run on real classes differs from the symbolic one AND breaks the property itself: code that behaves differently on real
            # classes than on classes answering only through issubclass / isinstance (it reads __mro__, __bases__, __class__, ...) is wrong on
            # the real ones -- a violation observed natively
            res["violations"].append(dict(shape=shape, assignment=assignment, world=W2.describe(assignment) if hasattr(W2, "describe") else None,
                                          realisation="abc.ABC.register (virtual subclasses)" if use_abc else "inheritance",
                                          symbolic_run=info, native_run=c2[0]["info"], note="found by the validation replay on real classes"))
        elif _strip(nat) != _strip(info):
            res["harness_errors"].append(dict(shape=shape, assignment=assignment, symbolic_run=info, native_run=nat,
                                              error="stub divergence: native run observed something else"))
        else:
            res["validated"] += 1
    return res


def _strip(info):
    if isinstance(info, dict):
        return {k: _strip(v) for k, v in info.items() if not k.startswith("_")}
    if isinstance(info, (list, tuple)):
        return [_strip(v) for v in info]
    return info


def replay_known(make_world, make_run, shape, assignment, seed, timeout_ms):
    """native replay of a known-finding witness: reproduced iff the *unexcluded* property fails"""
    import z3

    from symx.engine import Explorer, Verdict

    ex2 = Explorer(timeout_ms=timeout_ms, seed=seed, forced=assignment)
    for name, v in assignment.items():
        ex2.declare(z3.Bool(name) if isinstance(v, bool) else z3.Int(name))
    W2 = make_world(ex2, shape, True)
    run2 = make_run(W2, shape)

    def run_noknown(ctx):
        vd = run2(ctx)
        return Verdict(vd.post, (), vd.info, vd.tags, vd.nontrivial)

    st2, c2 = ex2.explore(run_noknown, max_paths=1)
    return bool(c2), c2, W2


def replay_record(mod, rec, with_known=True, verbose=True):
    """native replay (real classes, real ints, no stubs) of a stored record {shape, assignment}.
    Returns True iff the property is violated on it (known-finding exclusions applied iff with_known)."""
    import z3

    from symx.engine import Explorer

    shape, assignment = rec["shape"], rec["assignment"]
    ex = Explorer(forced=assignment)
    for name, v in assignment.items():
        ex.declare(z3.Bool(name) if isinstance(v, bool) else z3.Int(name))
    from symx import world as _world1

    _world1.REAL_MODE[0] = "abc" if str(rec.get("realisation", "")).startswith("abc") else "inherit"
    try:
        W = mod.make_world(ex, shape, True)
    finally:
        _world1.REAL_MODE[0] = "inherit"
    import inspect as _inspect

    kwx = {}
    if "replay_info" in _inspect.signature(mod.make_run).parameters:
        kwx["replay_info"] = rec.get("symbolic_run")
    run = mod.make_run(W, shape, **kwx) if with_known else mod.make_run(W, shape, known_active={}, **kwx)
    st, c = ex.explore(run, max_paths=1)
    if verbose:
        if hasattr(W, "describe"):
            print("world:", W.describe(assignment))
        print("shape:", json.dumps(shape, default=str))
        print("native run:", json.dumps(st["samples"], default=str))
    return bool(c)


def known_witness_lines(mod, pid):
    """replay every listed known finding's stored witness natively; print KNOWN-FINDING iff it still fails"""
    seen = set()
    for e in load_known(pid):
        if e.get("status") != "known":
            continue
        w = e.get("witness")
        still = False
        owner = mod
        if e.get("property") != pid:
            owner = __import__("props." + e["property"].lower(), fromlist=["x"])
        if w and "shape" in w:
            try:
                still = replay_record(owner, w, with_known=False, verbose=False)
            except Exception:  # noqa: BLE001
                print("HARNESS-ERROR: known-finding witness replay crashed:", traceback.format_exc()[-400:])
        elif w and w.get("kind") == "native":
            try:
                still = bool(getattr(owner, "NATIVE_WITNESSES")[w["program"]]())
            except Exception:  # noqa: BLE001  the witness program fails in another way than recorded: it certainly does not pass
                still = True
        if still:
            print(f"KNOWN-FINDING: property={pid} {e['what']}")
            seen.add(e["id"])
    return seen


# ---------------------------------------------------------------------------
# pool


def _worker(args):
    modname, fname, shape, kw = args
    try:
        mod = __import__(modname, fromlist=["x"])
        return getattr(mod, fname)(shape, **kw)
    except Exception:  # noqa: BLE001
        return dict(shape=shape, crashed=traceback.format_exc()[-1500:])


def pmap(modname, fname, shapes, kw, procs=None, chunksize=1):
    procs = procs or min(16, os.cpu_count() or 1)
    args = [(modname, fname, s, kw) for s in shapes]
    if procs == 1 or len(args) <= 1:
        return [_worker(a) for a in args]
    ctx = mp.get_context("fork")
    with ctx.Pool(procs) as pool:
        return list(pool.imap_unordered(_worker, args, chunksize=chunksize))


# ---------------------------------------------------------------------------
# aggregation, evidence, exit


def finish(pid, tier, seed, t0, results, *, level="model_checking", bounds=None, rule="", stubs=(),
           dont_care=(), assumptions=(), shapes_total=None, shapes_sampled=False, engine="symx(z3)",
           extra=None, mod=None):
    """results: list of shape result dicts (explore_symbolic format).  Writes evidence, prints
    VIOLATION / KNOWN-FINDING / INCONCLUSIVE lines, returns exit code."""
    os.makedirs(EVID, exist_ok=True)
    os.makedirs(REPLAYS, exist_ok=True)
    tot = dict(paths=0, literals=0, queries=0, solver_s=0.0, unknown=0, nontrivial=0, validated=0)
    tags = {}
    functions = set()
    samples = []
    violations = []
    herrors = []
    crashed = []
    inconclusive = 0
    exhaustive_all = True
    known_seen = {}
    xc = dict(checked=0, agree=0, disagree=[], errors=[], solvers=[])
    for r in results:
        if "crashed" in r:
            crashed.append(r)
            continue
        if "xcheck" in r:
            for k in ("checked", "agree"):
                xc[k] += r["xcheck"][k]
            xc["disagree"] += r["xcheck"]["disagree"]
            xc["errors"] += r["xcheck"]["errors"][:2]
            xc["solvers"] = r["xcheck"]["solvers"]
        st = r["stats"]
        for k in ("paths", "literals", "queries", "unknown", "nontrivial"):
            tot[k] += st.get(k, 0)
        tot["solver_s"] += st.get("solver_s", 0.0)
        tot["validated"] += r.get("validated", 0)
        for t, c in st.get("tags", {}).items():
            tags[t] = tags.get(t, 0) + c
        functions.update(r.get("functions", ()))
        if len(samples) < 6:
            for s in st.get("samples", [])[:1]:
                samples.append(dict(shape=r["shape"], path=s))
        if not st.get("exhaustive"):
            exhaustive_all = False
            inconclusive += 1
        violations.extend(r.get("violations", []))
        herrors.extend(r.get("harness_errors", []))
        for k, ks in st.get("known_seen", {}).items():
            agg = known_seen.setdefault(k, dict(path_classes=0, reproduced_natively=0, example=None))
            agg["path_classes"] += ks["count"]
            if ks.get("reproduced"):
                agg["reproduced_natively"] += 1
                if agg["example"] is None:
                    agg["example"] = dict(shape=r["shape"], world=ks.get("world"), run=(ks.get("witness") or {}).get("info"))
    code = EXIT_OK
    # known findings listed in the committed file
    still_failing = known_witness_lines(mod, pid) if mod is not None else set()
    for i, v in enumerate(violations):
        h = hashlib.sha1(json.dumps(v, sort_keys=True, default=str).encode()).hexdigest()[:10]
        path = os.path.join(REPLAYS, f"{pid}-{h}.json")
        with open(path, "w") as fh:
            json.dump(dict(property=pid, **v), fh, indent=1, default=str)
        if i < 10:
            print(f"VIOLATION property={pid} replay={path}")
        code = EXIT_VIOLATION
    if (herrors or crashed) and code == EXIT_OK:
        code = EXIT_HARNESS
    for h in herrors[:3]:
        print("HARNESS-ERROR:", json.dumps(h, default=str)[:1500])
    for c in crashed[:3]:
        print("HARNESS-ERROR (worker crashed):", c["crashed"])
    if inconclusive:
        print(f"INCONCLUSIVE: {inconclusive} shape(s) not exhausted within budget / solver unknown={tot['unknown']}")
    wall = time.time() - t0
    exhaustive = bool(exhaustive_all and not shapes_sampled and not crashed)
    cov = dict(
        states=tot["paths"],
        transitions=tot["literals"],
        traces_validated_against_impl=tot["validated"],
        samples=samples or [dict(note="no sample recorded")],
        evaluations=tot["paths"],
        distinct_nontrivial=tot["nontrivial"],
        rule=rule,
        exhaustive=exhaustive,
        shapes=len(results),
        shapes_total=shapes_total if shapes_total is not None else len(results),
        shapes_sampled=shapes_sampled,
        shapes_inconclusive=inconclusive,
        queries=tot["queries"],
        solver_s=round(tot["solver_s"], 3),
        solver_unknown=tot["unknown"],
        outcome_kinds=tags,
        functions_encoded=sorted(functions),
        bounds=bounds or {},
        stubs=list(stubs),
        dont_care=list(dont_care),
        known_findings_seen=known_seen,
        known_findings_witness_still_fails=sorted(still_failing),
        harness_errors=len(herrors) + len(crashed),
        engine=engine,
        second_solver_cross_check=dict(solvers=xc["solvers"], queries_rechecked=xc["checked"], agree=xc["agree"],
                                       disagree=xc["disagree"][:5], errors=len(xc["errors"]), error_samples=xc["errors"][:3]),
    )
    if xc["disagree"]:
        print("INCONCLUSIVE: second solver disagrees with z3 on", len(xc["disagree"]), "exported verdict queries")
        if code == EXIT_OK:
            code = EXIT_HARNESS
    if extra:
        cov.update(extra)
    ev = dict(property_id=pid, tier=tier, seed=seed, level=level, coverage=cov,
              assumptions=list(assumptions), wall_s=round(wall, 2), violations=len(violations))
    with open(os.path.join(EVID, f"{pid}.json"), "w") as fh:
        json.dump(ev, fh, indent=1, default=str)
    print(f"{pid} [{tier}] shapes={len(results)} path-classes={tot['paths']} literals={tot['literals']} "
          f"queries={tot['queries']} solver_s={tot['solver_s']:.1f} validated={tot['validated']} "
          f"violations={len(violations)} exhaustive={exhaustive} wall={wall:.1f}s")
    return code
