import argparse
import importlib
import json
import os
import sys


def main():
    ap = argparse.ArgumentParser()
    ap.add_argument("pid")
    ap.add_argument("--tier", default=os.environ.get("VERIF_TIER", "quick"), choices=["quick", "thorough"])
    ap.add_argument("--seed", type=int, default=int(os.environ.get("VERIF_SEED", "0") or 0))
    ap.add_argument("--replay")
    a = ap.parse_args()
    if a.tier == "thorough":
        os.environ.setdefault("VERIF_XCHECK", "1")
        os.environ.setdefault("VERIF_ABC", "1")   # thorough tier: re-discharge sampled verdict queries with cvc5 and z3 4.8.12
    mod = importlib.import_module("props." + a.pid.lower())
    if a.replay:
        from lib import runner

        runner.assert_real_code()
        with open(a.replay) as fh:
            rec = json.load(fh)
        bad = mod.replay(rec)
        if bad:
            print(f"VIOLATION property={a.pid} replay={a.replay}")
            sys.exit(1)
        print("replay: property holds on this input")
        sys.exit(0)
    sys.exit(mod.main(a.tier, a.seed))


main()
