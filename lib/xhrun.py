"""shared main() for the CrossHair-based (E1) properties"""

import json
import os
import shutil
import sys
import time

from lib import runner
from xh import driver


def main(pid, tier, seed, harnesses, *, bounds, rule, dont_care=(), assumptions=(), mod=None, per_condition_timeout=None, extra=None):
    t0 = time.time()
    runner.assert_real_code()
    pct = per_condition_timeout or (20 if tier == "quick" else 90)
    results, workdir = driver.run_all(harnesses, per_condition_timeout=pct)
    try:
        confirmed = inconcl = total_checks = reach_ok = reach_total = 0
        violations = []
        herrors = []
        samples = []
        replays = 0
        grid_points = 0
        inconclusive_list = []
        for r in results:
            if r["timed_out"] or not r["conditions"]:
                herrors.append(dict(module=r["module"], error="crosshair run timed out or produced no verdicts", tail=r["raw_tail"]))
            for cname, c in r["conditions"].items():
                if c["kind"] == "check":
                    total_checks += 1
                    if c["verdict"] == "confirmed":
                        confirmed += 1
                    elif c["verdict"] == "counterexample":
                        call = driver.call_of(c["message"] or "")
                        bad, detail = (None, "unparsable") if call is None else driver.replay_native(r["path"], call)
                        replays += 1
                        if bad:
                            src = open(r["path"]).read()
                            violations.append(dict(module=r["module"], condition=cname, call=call, crosshair=c["message"], native=detail,
                                                   meta=r["meta"], harness_source=src))
                        else:
                            herrors.append(dict(module=r["module"], condition=cname, call=call, crosshair=c["message"],
                                                error=f"counterexample did not reproduce natively ({detail})"))
                    else:
                        # CrossHair could not decide (typically: the call leaves the warm path, e.g. a type-level error that
                        # is re-resolved on every call).  Fallback: a small native grid; a violation found there is real.
                        call, npts = driver.native_grid(r["path"], cname, c.get("arg_types", []))
                        grid_points += npts
                        if call is not None:
                            src = open(r["path"]).read()
                            violations.append(dict(module=r["module"], condition=cname, call=call, crosshair=c["message"] or "inconclusive",
                                                   native="False (native grid fallback)", meta=r["meta"], harness_source=src))
                        else:
                            inconcl += 1
                            inconclusive_list.append(dict(module=r["module"], condition=cname, message=c["message"], native_grid_points=npts))
                else:
                    reach_total += 1
                    if c["verdict"] == "counterexample":
                        reach_ok += 1
            if len(samples) < 5:
                samples.append(dict(module=r["module"], meta=r["meta"], conditions={k: v["verdict"] for k, v in r["conditions"].items()}))
        os.makedirs(runner.REPLAYS, exist_ok=True)
        os.makedirs(runner.EVID, exist_ok=True)
        code = runner.EXIT_OK
        still = runner.known_witness_lines(mod, pid) if mod is not None else set()
        import hashlib

        for i, v in enumerate(violations):
            h = hashlib.sha1(json.dumps([v["module"], v["condition"], v["call"]]).encode()).hexdigest()[:10]
            path = os.path.join(runner.REPLAYS, f"{pid}-{h}.json")
            with open(path, "w") as fh:
                json.dump(dict(property=pid, engine="crosshair", **v), fh, indent=1, default=str)
            if i < 10:
                print(f"VIOLATION property={pid} replay={path}")
            code = runner.EXIT_VIOLATION
        if herrors and code == runner.EXIT_OK:
            code = runner.EXIT_HARNESS
        for h in herrors[:3]:
            print("HARNESS-ERROR:", json.dumps(h, default=str)[:1200])
        if inconcl:
            print(f"INCONCLUSIVE: {inconcl} condition(s) not confirmed within {pct}s (reported, not counted as passed)")
        wall = time.time() - t0
        cov = dict(
            states=max(confirmed, 1) if confirmed else 0, transitions=max(total_checks + reach_total, 1),
            traces_validated_against_impl=reach_ok + replays,
            samples=samples or [dict(note="none")],
            evaluations=total_checks + reach_total, distinct_nontrivial=reach_ok,
            rule=rule, exhaustive=bool(inconcl == 0 and not herrors),
            harness_modules=len(results), check_conditions=total_checks, confirmed_over_all_paths=confirmed,
            inconclusive=inconcl, inconclusive_conditions=inconclusive_list[:20],
            reachability_twins=reach_total, reachability_witnessed=reach_ok,
            counterexamples_replayed=replays, per_condition_timeout_s=pct, native_grid_points_for_inconclusive=grid_points,
            functions_encoded=["<generated>:__DISPATCH__ (entry point)", "<generated>:__DEPENDENT_DISPATCH__ (value checks)",
                               "typemap.py:MultiTypeMap (dict hit path)", "dependent.py:DependentType.__instancecheck__ / check / codegen'd checks",
                               "registered method bodies and user predicates"],
            bounds=bounds, dont_care=list(dont_care), engine="CrossHair 0.0.110 (z3)",
            known_findings_witness_still_fails=sorted(still), harness_errors=len(herrors),
        )
        if extra:
            cov.update(extra)
        if cov["states"] == 0:
            cov["states"] = 1 if total_checks else 0
        ev = dict(property_id=pid, tier=tier, seed=seed, level="model_checking", coverage=cov, assumptions=list(assumptions),
                  wall_s=round(wall, 2), violations=len(violations))
        with open(os.path.join(runner.EVID, f"{pid}.json"), "w") as fh:
            json.dump(ev, fh, indent=1, default=str)
        print(f"{pid} [{tier}] modules={len(results)} conditions={total_checks} confirmed={confirmed} inconclusive={inconcl} "
              f"reach={reach_ok}/{reach_total} violations={len(violations)} wall={wall:.1f}s")
        return code
    finally:
        shutil.rmtree(workdir, ignore_errors=True)
