"""Harness text generators shared by the E1 (CrossHair) properties."""

SPEC_LIB = '''
import re as _re
from ovld import Ovld, Dependent, recurse, call_next
from typing import Literal

LOG = []
PRED = []
_RANK = {bool: 0, int: 1, str: 1, list: 1, tuple: 1, dict: 1, object: 2}


def _outcome(call):
    del LOG[:]
    del PRED[:]
    try:
        call()
    except TypeError as e:
        msg = str(e)
        if msg.startswith("Ambiguous resolution"):
            return "AMB"
        if msg.startswith("No method"):
            return "NOM"
        return "EXC:" + msg[:40]
    return LOG[0] if len(LOG) == 1 else ("LOG", tuple(LOG))


def _sub(a, b):
    """bound a (a class or a tuple of classes = union) is included in bound b"""
    a = a if isinstance(a, tuple) else (a,)
    return all(issubclass(t, b) for t in a)


def _spec1(METHODS, x):
    """documented outcome for a one-position function (see DESIGN.md C10): priorities first; within a priority the
    value-dependent methods whose bound and condition hold come before every static method; among them the one with
    the most specific bound, a tie being an ambiguity; then the most specific static method"""
    for p in sorted({m["prio"] for m in METHODS}, reverse=True):
        deps = [m for m in METHODS if m["prio"] == p and m["kind"] == "dep" and isinstance(x, m["bound"]) and m["holds"](x)]
        if deps:
            mins = [m for m in deps if not any(o["bound"] != m["bound"] and _sub(o["bound"], m["bound"]) for o in deps)]
            if len(mins) == 1 and not any(isinstance(m["bound"], tuple) for m in deps):
                return mins[0]["idx"]
            if any(isinstance(m["bound"], tuple) for m in deps) and len(deps) > 1:
                # several matching literals of which one has values of several types: their bounds are unions whose
                # mutual order is the recorded C12 Union/Union finding -> ambiguity or any of them
                return ("ANY", tuple(m["idx"] for m in deps))
            return mins[0]["idx"] if len(mins) == 1 else "AMB"
        stats = [m for m in METHODS if m["prio"] == p and m["kind"] == "static" and isinstance(x, m["bound"])]
        if stats:
            best = min(_RANK[m["bound"]] for m in stats)
            top = [m for m in stats if _RANK[m["bound"]] == best]
            return top[0]["idx"] if len(top) == 1 else "AMB"
    return "NOM"


def _pred_ok():
    return all(isinstance(v, b) for (b, v) in PRED)
'''


STRATEGY_PROBE = '''
import linecache as _lc
STRATEGIES = sorted({("table" if any("HANDLER = " in l for l in e[2]) else "counting" if any("SUMMATION" in l for l in e[2]) else "if-chain")
                     for k, e in _lc.cache.items() if k.startswith("<ovld:") and any("__DEPENDENT_DISPATCH__" in l for l in e[2])})
'''


def one_position_module(methods, corpus, checks, prelude=""):
    """methods: list of dict(kind='dep'|'static', bound='int', pred='x > 10' (python expr over x), prio=int)
    checks: list of (suffix, arg_type, pre) e.g. ('int', 'int', None), ('str', 'str', 'len(x) <= 3')"""
    L = [SPEC_LIB, prelude, "f = Ovld()", "METHODS = []"]
    for i, m in enumerate(methods):
        b = m["bound"]
        if m["kind"] == "ann":
            # value type given by an annotation expression; documented meaning given as a python expression over x
            L.append(f"def m{i}(x: {m['ann']}):\n    LOG.append({i})\n    return {i}")
            L.append(f"METHODS.append(dict(idx={i}, kind='dep', bound={b}, holds=(lambda x: {m['pred']}), prio={m['prio']}))")
        elif m["kind"] == "dep":
            L.append(f"def p{i}(x):\n    PRED.append(({b}, x))\n    return {m['pred']}")
            L.append(f"def m{i}(x: Dependent[{b}, p{i}]):\n    LOG.append({i})\n    return {i}")
            L.append(f"METHODS.append(dict(idx={i}, kind='dep', bound={b}, holds=(lambda x: {m['pred']}), prio={m['prio']}))")
        else:
            L.append(f"def m{i}(x: {b}):\n    LOG.append({i})\n    return {i}")
            L.append(f"METHODS.append(dict(idx={i}, kind='static', bound={b}, prio={m['prio']}))")
        L.append(f"f.register(m{i}, priority={m['prio']})")
    L.append("F = f.dispatch")
    L.append(f"for _v in {corpus!r} + [object(), None, 1.5]:\n    _outcome(lambda: F(_v))")
    L.append(STRATEGY_PROBE)
    for suffix, typ, pre in checks:
        doc = (f"    pre: {pre}\n" if pre else "") + "    post: _"
        L.append(f"def check_{suffix}(x: {typ}) -> bool:\n    \"\"\"\n{doc}\n    \"\"\"\n"
                 f"    got = _outcome(lambda: F(x))\n    exp = _spec1(METHODS, x)\n"
                 f"    if isinstance(exp, tuple):\n        return (got == 'AMB' or got in exp[1]) and _pred_ok()\n"
                 f"    return got == exp and _pred_ok()")
        for i, m in enumerate(methods):
            L.append(f"def reach_{suffix}_m{i}(x: {typ}) -> bool:\n    \"\"\"\n{doc.replace('post: _', 'post: not _')}\n    \"\"\"\n"
                     f"    return _outcome(lambda: F(x)) == {i}")
        L.append(f"def reach_{suffix}_amb(x: {typ}) -> bool:\n    \"\"\"\n{doc.replace('post: _', 'post: not _')}\n    \"\"\"\n"
                 f"    return _outcome(lambda: F(x)) == 'AMB'")
    return "\n\n".join(L) + "\n"


def two_position_module(p1, p2, prio=(0, 0, 0), third="int"):
    """f(x: Dependent[int, p1], y: int) / f(x: int, y: Dependent[int, p2]) / f(x: int, y: int)  (+ object fallback)"""
    L = [SPEC_LIB, "f = Ovld()"]
    L.append(f"def q0(x):\n    PRED.append((int, x))\n    return {p1}")
    L.append(f"def q1(x):\n    PRED.append((int, x))\n    return {p2}")
    L.append("def m0(x: Dependent[int, q0], y: int):\n    LOG.append(0)\n    return 0")
    L.append("def m1(x: int, y: Dependent[int, q1]):\n    LOG.append(1)\n    return 1")
    L.append(f"def m2(x: {third}, y: {third}):\n    LOG.append(2)\n    return 2")
    L.append("def m3(x: object, y: object):\n    LOG.append(3)\n    return 3")
    for i, p in enumerate(list(prio) + [-5]):
        L.append(f"f.register(m{i}, priority={p})")
    L.append("F = f.dispatch")
    L.append("for _a in (0, 1, 11, -3, True, 'a', None):\n    for _b in (0, 1, 11, -3, True, 'a', None):\n        _outcome(lambda: F(_a, _b))")
    L.append(f'''def _spec2(x, y):
    P = {list(prio)!r}
    h0 = (lambda x: {p1})(x)
    h1 = (lambda x: {p2})(y)
    for p in sorted(set(P), reverse=True):
        deps = [i for i in (0, 1) if P[i] == p and (h0, h1)[i]]
        if len(deps) == 1:
            return deps[0]
        if len(deps) == 2:
            return "AMB"
        if P[2] == p:
            return 2
    return 3''')
    L.append('def check_ints(x: int, y: int) -> bool:\n    """\n    post: _\n    """\n    return _outcome(lambda: F(x, y)) == _spec2(x, y) and _pred_ok()')
    for i in range(3):
        L.append(f'def reach_ints_m{i}(x: int, y: int) -> bool:\n    """\n    post: not _\n    """\n    return _outcome(lambda: F(x, y)) == {i}')
    L.append('def reach_ints_amb(x: int, y: int) -> bool:\n    """\n    post: not _\n    """\n    return _outcome(lambda: F(x, y)) == "AMB"')
    L.append('def check_mixed(x: int, s: str) -> bool:\n    """\n    pre: len(s) <= 2\n    post: _\n    """\n    return _outcome(lambda: F(x, s)) == 3 and _outcome(lambda: F(s, x)) == 3 and _pred_ok()')
    return "\n\n".join(L) + "\n"


def value_module(name, ann_methods, arg_sig, build_arg, pre, prelude="", extra_static=("object",), warm=()):
    """methods whose single parameter is annotated with a built-in value type.
    ann_methods: list of (annotation expr, documented-meaning expr over v)
    arg_sig: parameter list of the check function, e.g. "a: int, s: str";  build_arg: expression building the value v
    Oracle 1 (documented meaning): the method with annotation T is the one that ran  <=> its meaning holds (single
    matching -> ran, none -> fallback, several -> AMB);  Oracle 2: isinstance(v, T) agrees with the meaning."""
    L = [SPEC_LIB, prelude, "from ovld.types import normalize_type as _nt", "f = Ovld()", "ANN = []"]
    for i, (ann, meaning) in enumerate(ann_methods):
        L.append(f"def m{i}(v: {ann}):\n    LOG.append({i})\n    return {i}")
        L.append(f"f.register(m{i})")
        L.append(f"ANN.append((_nt({ann}, m{i}), (lambda v: {meaning})))")
    k = len(ann_methods)
    for j, st in enumerate(extra_static):
        L.append(f"def s{j}(v: {st}):\n    LOG.append({k + j})\n    return {k + j}")
        L.append(f"f.register(s{j}, priority={-1 - j})")
    L.append("F = f.dispatch")
    L.append("for _v in [" + ", ".join(warm) + ", object(), None, 0, 'a', (), [], {}, (1, 'a'), [1], ['a'], {'a': 1}, 1.5, True]:\n    _outcome(lambda: F(_v))")
    L.append(STRATEGY_PROBE)
    L.append("def _mk(" + ", ".join(p.split(":")[0].strip() for p in arg_sig.split(",")) + f"):\n    return {build_arg}")
    names = ", ".join(p.split(":")[0].strip() for p in arg_sig.split(","))
    doc = (f"    pre: {pre}\n" if pre else "")
    L.append(f'''def _expected(v):
    hold = [i for i, (T, mean) in enumerate(ANN) if mean(v)]
    if len(hold) == 1:
        return hold[0]
    if len(hold) > 1:
        return "AMB*"      # several value types hold: ambiguity unless the types are ordered (not asserted here)
    return None''')
    L.append(f'''def check_dispatch({arg_sig}) -> bool:
    """
{doc}    post: _
    """
    v = _mk({names})
    got = _outcome(lambda: F(v))
    exp = _expected(v)
    if exp is None:
        return got not in range({k}) and got != "AMB"
    if exp == "AMB*":
        return got == "AMB" or got in [i for i, (T, mean) in enumerate(ANN) if mean(v)]
    return got == exp''')
    # isinstance(value, type) against the documented meaning: concretely, over the warm-up corpus (CrossHair's patched
    # isinstance does not honour the metaclass hooks these types rely on, so this part is not symbolic)
    L.append("CORPUS = [" + ", ".join(warm) + ", object(), None, 0, 1, 2, 3, 'a', 'ab', 'abc', 'b', 'xy', 'x', '', (), [], {}, (1, 'a'), (1, 2), [1], ['a'], "
             "{'a': 1}, {'a': 1, 'b': 2}, {'b': 1}, 1.5, True, (True,), (1, (1, 'a')), [[1]], {1: 'a'}]")
    L.append("NATIVE_DISAGREE = [(repr(v), str(T)) for v in CORPUS for T, mean in ANN if bool(isinstance(v, T)) != bool(mean(v))]  # at import: native")
    L.append('''def check_native_corpus() -> bool:
    """
    post: _
    """
    return not NATIVE_DISAGREE''')
    for i in range(k):
        L.append(f'''def reach_m{i}({arg_sig}) -> bool:
    """
{doc}    post: not _
    """
    return _outcome(lambda: F(_mk({names}))) == {i}''')
    return "\n\n".join(L) + "\n"
