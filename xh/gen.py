"""Harness text generators shared by the E1 (CrossHair) properties."""

SPEC_LIB = '''
import re as _re
from ovld import Ovld, Dependent, recurse, call_next
from typing import Literal

LOG = []
PRED = []
RAISE = [False]


class Boom(TypeError):
    """raised by a method body on request: an ordinary error of the selected method (a TypeError, like the ones the dispatcher raises itself)"""
_RANK = {bool: 0, int: 1, str: 1, list: 1, tuple: 1, dict: 1, object: 2}


def _outcome(call):
    del LOG[:]
    del PRED[:]
    try:
        call()
    except Boom as e:
        return ("BOOM", e.args[0], tuple(LOG))
    except TypeError as e:
        msg = str(e)
        if msg.startswith("Ambiguous resolution"):
            return "AMB"
        if msg.startswith("No method"):
            return "NOM"
        return "EXC:" + msg[:40]
    except Exception as e:   # any other failure of the dispatcher itself (not CrossHair's control-flow exceptions: BaseException)
        return "EXC:" + type(e).__name__
    return LOG[0] if len(LOG) == 1 else ("LOG", tuple(LOG))


def _sub(a, b):
    """bound a (a class or a tuple of classes = union) is included in bound b"""
    a = a if isinstance(a, tuple) else (a,)
    return all(issubclass(t, b) for t in a)


def _spec1(METHODS, x):
    """documented outcome for a one-position function (see DESIGN.md C10): priorities first; within a priority the
    value-dependent methods whose bound and condition hold come before every static method; among them the one with
    the most specific bound, a tie being an ambiguity; then the most specific static method"""
    for p in sorted({m["prio"] for m in METHODS}, reverse=True):
        deps = [m for m in METHODS if m["prio"] == p and m["kind"] == "dep" and isinstance(x, m["bound"]) and m["holds"](x)]
        if deps:
            mins = [m for m in deps if not any(o["bound"] != m["bound"] and _sub(o["bound"], m["bound"]) for o in deps)]
            if len(mins) == 1 and not any(isinstance(m["bound"], tuple) for m in deps):
                return mins[0]["idx"]
            if any(isinstance(m["bound"], tuple) for m in deps) and len(deps) > 1:
                # several matching literals of which one has values of several types: their bounds are unions whose
                # mutual order is the recorded C12 Union/Union finding -> ambiguity or any of them
                return ("ANY", tuple(m["idx"] for m in deps))
            return mins[0]["idx"] if len(mins) == 1 else "AMB"
        stats = [m for m in METHODS if m["prio"] == p and m["kind"] == "static" and isinstance(x, m["bound"])]
        if stats:
            # the unique most specific static method (no other applicable one on a strictly more specific class); none unique: ambiguity
            top = [m for m in stats if not any(o["bound"] is not m["bound"] and _sub(o["bound"], m["bound"]) for o in stats)]
            return top[0]["idx"] if len(top) == 1 else "AMB"
    return "NOM"


def _pred_ok():
    return all(isinstance(v, b) for (b, v) in PRED)
'''


STRATEGY_PROBE = '''
import linecache as _lc
STRATEGIES = sorted({("table" if any("HANDLER = " in l for l in e[2]) else "counting" if any("SUMMATION" in l for l in e[2]) else "if-chain")
                     for k, e in _lc.cache.items() if k.startswith("<ovld:") and any("__DEPENDENT_DISPATCH__" in l for l in e[2])})
'''


def one_position_module(methods, corpus, checks, prelude=""):
    """methods: list of dict(kind='dep'|'static', bound='int', pred='x > 10' (python expr over x), prio=int)
    checks: list of (suffix, arg_type, pre) e.g. ('int', 'int', None), ('str', 'str', 'len(x) <= 3')"""
    L = [SPEC_LIB, prelude, "f = Ovld()", "METHODS = []"]
    for i, m in enumerate(methods):
        b = m["bound"]
        if m["kind"] == "depunion":
            # a value-dependent type as a member of a union with a plain class
            L.append(f"def p{i}(x):\n    PRED.append(({b}, x))\n    return {m['pred']}")
            if m.get("plain"):
                # ... intersected with a plain member that is unrelated to the bound (a protocol-like type): the value may pass the plain
                # member without being an instance of the bound
                L.append(f"def m{i}(x: ({m['plain']} & Dependent[{b}, p{i}]) | {m['other']}):\n    LOG.append({i})\n    if RAISE[0]:\n        raise Boom({i})\n    return {i}")
            elif m.get("double"):
                L.append(f"def p{i}b(x):\n    PRED.append(({b}, x))\n    return True")
                L.append(f"def m{i}(x: (Dependent[{b}, p{i}] & Dependent[{b}, p{i}b]) | {m['other']}):\n    LOG.append({i})\n    if RAISE[0]:\n        raise Boom({i})\n    return {i}")
            else:
                L.append(f"def m{i}(x: Dependent[{b}, p{i}] | {m['other']}):\n    LOG.append({i})\n    if RAISE[0]:\n        raise Boom({i})\n    return {i}")
            L.append(f"METHODS.append(dict(idx={i}, kind='dep', bound=({b}, {m['other']}), "
                     f"holds=(lambda x: (isinstance(x, {b}) and ({m['pred']})) or isinstance(x, {m['other']})), prio={m['prio']}))")
        elif m["kind"] == "ann":
            # value type given by an annotation expression; documented meaning given as a python expression over x
            L.append(f"def m{i}(x: {m['ann']}):\n    LOG.append({i})\n    if RAISE[0]:\n        raise Boom({i})\n    return {i}")
            L.append(f"METHODS.append(dict(idx={i}, kind='dep', bound={b}, holds=(lambda x: {m['pred']}), prio={m['prio']}))")
        elif m["kind"] == "dep":
            L.append(f"def p{i}(x):\n    PRED.append(({b}, x))\n    return {m['pred']}")
            L.append(f"def m{i}(x: Dependent[{b}, p{i}]):\n    LOG.append({i})\n    if RAISE[0]:\n        raise Boom({i})\n    return {i}")
            L.append(f"METHODS.append(dict(idx={i}, kind='dep', bound={b}, holds=(lambda x: {m['pred']}), prio={m['prio']}))")
        else:
            L.append(f"def m{i}(x: {b}):\n    LOG.append({i})\n    if RAISE[0]:\n        raise Boom({i})\n    return {i}")
            L.append(f"METHODS.append(dict(idx={i}, kind='static', bound={b}, prio={m['prio']}))")
        L.append(f"f.register(m{i}, priority={m['prio']})")
    L.append("F = f.dispatch")
    L.append(f"CORPUS1 = {corpus!r} + [object(), None, 1.5, 1.0, 0.0, 2.0, 1 + 0j, [1], [], 'ab', (1,)]")
    L.append("for _v in CORPUS1:\n    _outcome(lambda: F(_v))")
    L.append(STRATEGY_PROBE)
    # the same comparison on concrete values of every kind (floats, containers, None ...), natively at import
    L.append("""def _native_one(v):
    got = _outcome(lambda: F(v))
    exp = _spec1(METHODS, v)
    if isinstance(exp, tuple):
        return (got == 'AMB' or got in exp[1]) and _pred_ok()
    return got == exp and _pred_ok()
NATIVE_BAD1 = [repr(v) for v in CORPUS1 if not _native_one(v)]
def check_native_values() -> bool:
    \"\"\"
    post: _
    \"\"\"
    return not NATIVE_BAD1""")
    for suffix, typ, pre in checks:
        doc = (f"    pre: {pre}\n" if pre else "") + "    post: _"
        L.append(f"def check_{suffix}(x: {typ}) -> bool:\n    \"\"\"\n{doc}\n    \"\"\"\n"
                 f"    got = _outcome(lambda: F(x))\n    exp = _spec1(METHODS, x)\n"
                 f"    if isinstance(exp, tuple):\n        return (got == 'AMB' or got in exp[1]) and _pred_ok()\n"
                 f"    return got == exp and _pred_ok()")
        # an error raised by the selected method reaches the caller unchanged, and no other method runs in its place
        L.append(f"def check_raise_{suffix}(x: {typ}) -> bool:\n    \"\"\"\n{doc}\n    \"\"\"\n"
                 f"    exp = _spec1(METHODS, x)\n    if not isinstance(exp, int):\n        return True\n"
                 f"    RAISE[0] = True\n    try:\n        got = _outcome(lambda: F(x))\n    finally:\n        RAISE[0] = False\n"
                 f"    return got == ('BOOM', exp, (exp,))")
        for i, m in enumerate(methods):
            L.append(f"def reach_{suffix}_m{i}(x: {typ}) -> bool:\n    \"\"\"\n{doc.replace('post: _', 'post: not _')}\n    \"\"\"\n"
                     f"    return _outcome(lambda: F(x)) == {i}")
        L.append(f"def reach_{suffix}_amb(x: {typ}) -> bool:\n    \"\"\"\n{doc.replace('post: _', 'post: not _')}\n    \"\"\"\n"
                 f"    return _outcome(lambda: F(x)) == 'AMB'")
    return "\n\n".join(L) + "\n"


def two_position_module(p1, p2, prio=(0, 0, 0), third="int", anns=None):
    """f(x: Dependent[int, p1], y: int) / f(x: int, y: Dependent[int, p2]) / f(x: int, y: int)  (+ object fallback)"""
    L = [SPEC_LIB, "f = Ovld()"]
    L.append(f"def q0(x):\n    PRED.append((int, x))\n    return {p1}")
    L.append(f"def q1(x):\n    PRED.append((int, x))\n    return {p2}")
    # (anns: the two value-dependent annotations spelled otherwise, e.g. as Literal[...]; p1 / p2 then state their documented meaning)
    a0, a1 = anns or ("Dependent[int, q0]", "Dependent[int, q1]")
    L.append(f"def m0(x: {a0}, y: int):\n    LOG.append(0)\n    return 0")
    L.append(f"def m1(x: int, y: {a1}):\n    LOG.append(1)\n    return 1")
    L.append(f"def m2(x: {third}, y: {third}):\n    LOG.append(2)\n    return 2")
    L.append("def m3(x: object, y: object):\n    LOG.append(3)\n    return 3")
    for i, p in enumerate(list(prio) + [-5]):
        L.append(f"f.register(m{i}, priority={p})")
    L.append("F = f.dispatch")
    L.append("for _a in (0, 1, 11, -3, True, 'a', None):\n    for _b in (0, 1, 11, -3, True, 'a', None):\n        _outcome(lambda: F(_a, _b))")
    L.append(f'''def _spec2(x, y):
    P = {list(prio)!r}
    h0 = (lambda x: {p1})(x)
    h1 = (lambda x: {p2})(y)
    for p in sorted(set(P), reverse=True):
        deps = [i for i in (0, 1) if P[i] == p and (h0, h1)[i]]
        if len(deps) == 1:
            return deps[0]
        if len(deps) == 2:
            return "AMB"
        if P[2] == p:
            return 2
    return 3''')
    L.append('def check_ints(x: int, y: int) -> bool:\n    """\n    post: _\n    """\n    return _outcome(lambda: F(x, y)) == _spec2(x, y) and _pred_ok()')
    for i in range(3):
        L.append(f'def reach_ints_m{i}(x: int, y: int) -> bool:\n    """\n    post: not _\n    """\n    return _outcome(lambda: F(x, y)) == {i}')
    L.append('def reach_ints_amb(x: int, y: int) -> bool:\n    """\n    post: not _\n    """\n    return _outcome(lambda: F(x, y)) == "AMB"')
    L.append('def check_mixed(x: int, s: str) -> bool:\n    """\n    pre: len(s) <= 2\n    post: _\n    """\n    return _outcome(lambda: F(x, s)) == 3 and _outcome(lambda: F(s, x)) == 3 and _pred_ok()')
    return "\n\n".join(L) + "\n"


def value_module(name, ann_methods, arg_sig, build_arg, pre, prelude="", extra_static=("object",), warm=(), native_only=False):
    """methods whose single parameter is annotated with a built-in value type.
    ann_methods: list of (annotation expr, documented-meaning expr over v)
    arg_sig: parameter list of the check function, e.g. "a: int, s: str";  build_arg: expression building the value v
    Oracle 1 (documented meaning): the method with annotation T is the one that ran  <=> its meaning holds (single
    matching -> ran, none -> fallback, several -> AMB);  Oracle 2: isinstance(v, T) agrees with the meaning."""
    L = [SPEC_LIB, prelude, "from ovld.types import normalize_type as _nt", "f = Ovld()", "ANN = []"]
    for i, (ann, meaning) in enumerate(ann_methods):
        L.append(f"def m{i}(v: {ann}):\n    LOG.append({i})\n    return {i}")
        L.append(f"f.register(m{i})")
        L.append(f"ANN.append((_nt({ann}, m{i}), (lambda v: {meaning})))")
    k = len(ann_methods)
    for j, st in enumerate(extra_static):
        L.append(f"def s{j}(v: {st}):\n    LOG.append({k + j})\n    return {k + j}")
        L.append(f"f.register(s{j}, priority={-1 - j})")
    L.append("F = f.dispatch")
    L.append("for _v in [" + ", ".join(warm) + ", object(), None, 0, 'a', (), [], {}, (1, 'a'), [1], ['a'], {'a': 1}, 1.5, True]:\n    _outcome(lambda: F(_v))")
    L.append(STRATEGY_PROBE)
    L.append("def _mk(" + ", ".join(p.split(":")[0].strip() for p in arg_sig.split(",")) + f"):\n    return {build_arg}")
    names = ", ".join(p.split(":")[0].strip() for p in arg_sig.split(","))
    doc = (f"    pre: {pre}\n" if pre else "")
    L.append(f'''def _expected(v):
    hold = [i for i, (T, mean) in enumerate(ANN) if mean(v)]
    if len(hold) == 1:
        return hold[0]
    if len(hold) > 1:
        return "AMB*"      # several value types hold: ambiguity unless the types are ordered (not asserted here)
    return None''')
    cd_name = "_check_dispatch_native" if native_only else "check_dispatch"
    L.append(f'''def {cd_name}({arg_sig}) -> bool:
    """
{doc}    post: _
    """
    v = _mk({names})
    got = _outcome(lambda: F(v))
    exp = _expected(v)
    if exp is None:
        return got not in range({k}) and got != "AMB" and not (isinstance(got, str) and got.startswith("EXC"))
    if exp == "AMB*":
        return got == "AMB" or got in [i for i, (T, mean) in enumerate(ANN) if mean(v)]
    return got == exp''')
    if native_only:
        # the generated checks of these types go through metaclass __instancecheck__ hooks that CrossHair's patched isinstance does not honour
        # (even on concrete values): decided natively at import over a grid of arguments instead of symbolically
        params = [p_.split(":")[0].strip() for p_ in arg_sig.split(",")]
        kinds = [p_.split(":")[1].strip() for p_ in arg_sig.split(",")]
        doms = ["(-2, -1, 0, 1, 2, 3, 7)" if k_ == "int" else "('', 'a', 'b', 'ab', 'x', 'xy')" if k_ == "str" else "(False, True)" for k_ in kinds]
        loops = "".join(f" for {p_} in {d_}" for p_, d_ in zip(params, doms))
        L.append(f"NATIVE_GRID_BAD = [({', '.join(params)}){loops} if not _check_dispatch_native({', '.join(params)})]  # at import: native")
    else:
        L.append("NATIVE_GRID_BAD = []")
    # isinstance(value, type) against the documented meaning: concretely, over the warm-up corpus (CrossHair's patched
    # isinstance does not honour the metaclass hooks these types rely on, so this part is not symbolic)
    L.append("CORPUS = [" + ", ".join(warm) + ", object(), None, 0, 1, 2, 3, 'a', 'ab', 'abc', 'b', 'xy', 'x', '', (), [], {}, (1, 'a'), (1, 2), [1], ['a'], "
             "{'a': 1}, {'a': 1, 'b': 2}, {'b': 1}, 1.5, True, (True,), (1, (1, 'a')), [[1]], {1: 'a'}]")
    L.append("from collections import namedtuple as _nt2, OrderedDict as _OD")
    L.append("class _MyTuple(tuple): pass\nclass _MyList(list): pass\nclass _MyStr(str): pass\nclass _MyInt(int): pass\n_NT = _nt2('_NT', 'a b')")
    L.append("CORPUS += [_MyTuple((1, 'a')), _MyTuple((1, 2)), _NT(1, 'a'), _NT(1, 2), (_NT(1, 2),), (_MyTuple((1, 2)),), (1, _NT(1, 'a')), (1, _MyTuple((1, 'a'))), "
             "_MyList([1]), _MyList(['a']), _MyStr('ab'), _MyStr('xab'), _MyStr('ay'), _MyInt(1), _MyInt(3), _OD(a=1), _OD(a=1, b=2), ((1, 2),), ((1, 'a'),), (True, 'a')]")
    L.append("NATIVE_DISAGREE = [(repr(v), str(T)) for v in CORPUS for T, mean in ANN if bool(isinstance(v, T)) != bool(mean(v))]  # at import: native")
    L.append("""def _dispatch_vs_isinstance():
    bad = []
    for v in CORPUS:
        got = _outcome(lambda: F(v))
        inst = [i for i, (T, mean) in enumerate(ANN) if isinstance(v, T)]
        if len(inst) == 1 and got != inst[0]:
            bad.append((repr(v), got, inst))
        if not inst and (got in range(len(ANN)) or got == 'AMB' or (isinstance(got, str) and got.startswith('EXC'))):
            bad.append((repr(v), got, inst))
    return bad
NATIVE_DISPATCH_DISAGREE = _dispatch_vs_isinstance()  # at import: native, incl. instances of subclasses of the bounds""")
    L.append('''def check_native_corpus() -> bool:
    """
    post: _
    """
    return not NATIVE_DISAGREE and not NATIVE_DISPATCH_DISAGREE and not NATIVE_GRID_BAD''')
    for i in range(k):
        L.append(f'''def reach_m{i}({arg_sig}) -> bool:
    """
{doc}    post: not _
    """
    return _outcome(lambda: F(_mk({names}))) == {i}''')
    return "\n\n".join(L) + "\n"


def entry_guard_module(variant):
    """C01, value level: every method body re-checks its own documented condition on the arguments it received
    (positional, keyword-only, reached directly, through recurse and through call_next)."""
    L = [SPEC_LIB, "BAD = []", "f = Ovld()"]
    if variant == "kwonly_literal":
        L.append('''def m0(x: int, *, mode: Literal["double"]):
    if not (isinstance(x, int) and mode == "double"):
        BAD.append(("m0", x, mode))
    return ("double", x)''')
        L.append('''def m1(x: int, *, mode: Literal["triple", "quad"]):
    if not (isinstance(x, int) and mode in ("triple", "quad")):
        BAD.append(("m1", x, mode))
    return (mode, x)''')
        L.append('''def m2(x: int, *, mode: str):
    if not (isinstance(x, int) and isinstance(mode, str)):
        BAD.append(("m2", x, mode))
    return ("other", recurse(x - 1, mode="double") if x == 5 else x)''')
        L.append("for _m in (m0, m1, m2):\n    f.register(_m)")
        L.append("F = f.dispatch")
        L.append("for _x in (0, 5, True):\n    for _md in ('double', 'triple', 'quad', 'zz', ''):\n        _outcome(lambda: F(_x, mode=_md))")
        L.append('''def check_entries(x: int, k: int, s: str) -> bool:
    """
    pre: len(s) <= 2
    post: _
    """
    del BAD[:]
    mode = ("double", "triple", "quad", s)[k % 4]
    r = _outcome(lambda: F(x, mode=mode))
    return not BAD''')
    elif variant == "kwonly_dependent":
        L.append("def _big(v):\n    PRED.append((int, v))\n    return v > 10")
        L.append('''def m0(x: int, *, k: Dependent[int, _big]):
    if not (isinstance(k, int) and k > 10):
        BAD.append(("m0", x, k))
    return ("big", call_next(x, k=k))''')
        L.append('''def m1(x: int, *, k: int):
    if not isinstance(k, int):
        BAD.append(("m1", x, k))
    return ("int", recurse(x, k=k + 20) if 0 <= k < 3 else k)''')
        L.append('''def m2(x: object, *, k: object = None):
    return ("obj", k)''')
        L.append("f.register(m0)\nf.register(m1)\nf.register(m2, priority=-1)")
        L.append("F = f.dispatch")
        L.append("for _x in (0, 'a'):\n    for _k in (0, 1, 11, 30, 'z', None):\n        _outcome(lambda: F(_x, k=_k))\n    _outcome(lambda: F(_x))")
        L.append('''def check_entries(x: int, k: int) -> bool:
    """
    post: _
    """
    del BAD[:]
    r = _outcome(lambda: F(x, k=k))
    return not BAD and _pred_ok()''')
    elif variant == "positional_mix":
        L.append("def _even(v):\n    PRED.append((int, v))\n    return v % 2 == 0")
        L.append('''def m0(x: Literal[0, 1], y: Dependent[int, _even]):
    if not (x in (0, 1) and isinstance(y, int) and y % 2 == 0):
        BAD.append(("m0", x, y))
    return ("m0", recurse(x + 2, y + 1))''')
        L.append('''def m1(x: int, y: Literal[3]):
    if not (isinstance(x, int) and y == 3):
        BAD.append(("m1", x, y))
    return ("m1", call_next(x, y))''')
        L.append('''def m2(x: int, y: int):
    if not (isinstance(x, int) and isinstance(y, int)):
        BAD.append(("m2", x, y))
    return ("m2", x, y)''')
        L.append('''def m3(x: tuple[int, str], y: object):
    if not (isinstance(x, tuple) and len(x) == 2 and isinstance(x[0], int) and isinstance(x[1], str)):
        BAD.append(("m3", x, y))
    return ("m3", recurse(x[0], len(x[1])))''')
        L.append("f.register(m0)\nf.register(m1)\nf.register(m2, priority=-1)\nf.register(m3)")
        L.append("F = f.dispatch")
        L.append("for _x in (0, 1, 2, 3, (1, 'a'), (1, 2), 'q'):\n    for _y in (0, 1, 2, 3, 4, 'z'):\n        _outcome(lambda: F(_x, _y))")
        L.append('''def check_entries(x: int, y: int, s: str, k: int) -> bool:
    """
    pre: len(s) <= 2
    post: _
    """
    del BAD[:]
    a = (x, (x, s), (x, y))[k % 3]
    r = _outcome(lambda: F(a, y))
    return not BAD and _pred_ok()''')
    elif variant == "kwonly_only":
        L.append('''def m0(*, z: Literal[0]):
    if not (isinstance(z, int) and z == 0):
        BAD.append(("m0", z))
    return ("zero", z)''')
        L.append('''def m1(*, z: int):
    if not isinstance(z, int):
        BAD.append(("m1", z))
    return ("int", z)''')
        L.append("f.register(m0)\nf.register(m1)")
        L.append("F = f.dispatch")
        L.append("for _z in (0, 1, True, 'a'):\n    _outcome(lambda: F(z=_z))")
        L.append('''def check_entries(z: int) -> bool:
    """
    post: _
    """
    del BAD[:]
    r = _outcome(lambda: F(z=z))
    return not BAD and r in ("NOM", "AMB") or (not BAD and not str(r).startswith("EXC"))''')
    elif variant == "same_parameters_other_bound":
        L.append("from typing import Sequence")
        L.append('''def m0(x: Literal[1]):
    if not (isinstance(x, int) and x == 1):
        BAD.append(("m0", x))
    return ("m0", x)''')
        L.append('''def m1(x: Literal[True]):
    if not (isinstance(x, bool) and x is True):
        BAD.append(("m1", x))
    return ("m1", x)''')
        L.append('''def m2(x: list[int]):
    if not (isinstance(x, list) and (not x or isinstance(x[0], int))):
        BAD.append(("m2", x))
    return ("m2", x)''')
        L.append('''def m3(x: tuple[int, ...]):
    if not (isinstance(x, tuple) and (not x or isinstance(x[0], int))):
        BAD.append(("m3", x))
    return ("m3", x)''')
        L.append('''def m4(x: object):
    return ("m4", x)''')
        L.append("for _m in (m0, m1, m2, m3):\n    f.register(_m)\nf.register(m4, priority=-1)")
        L.append("F = f.dispatch")
        L.append("for _x in (0, 1, 2, True, False, [1], ['a'], [], (1,), ('a',), (), 'q', None):\n    _outcome(lambda: F(_x))")
        L.append('''def check_entries(x: int, b: bool, k: int) -> bool:
    """
    post: _
    """
    del BAD[:]
    r = _outcome(lambda: F((x, b, [x], (x,), [b], (b,), [], ())[k % 8]))
    return not BAD''')
    elif variant == "nested_combinators":
        L.append("from ovld.dependent import Equals, StartsWith, EndsWith")
        L.append("from ovld.types import Union, Intersection")
        L.append('''def m0(x: Equals[0] | Equals[1] | str):
    if not ((isinstance(x, int) and x in (0, 1)) or isinstance(x, str)):
        BAD.append(("m0", x))
    return ("m0", x)''')
        L.append('''def m1(x: int, *, tag: (StartsWith["a"] & str) | (StartsWith["b"] & str) = "a"):
    if not (isinstance(x, int) and isinstance(tag, str) and (tag.startswith("a") or tag.startswith("b"))):
        BAD.append(("m1", x, tag))
    return ("m1", recurse(x - 1, tag=tag) if x == 7 else x)''')
        L.append('''def m2(x: Intersection[Union[Equals[5], Equals[6]], int]):
    if not (isinstance(x, int) and x in (5, 6)):
        BAD.append(("m2", x))
    return ("m2", call_next(x))''')
        L.append('''def m3(x: object, *, tag: object = None):
    return ("m3", x)''')
        L.append("f.register(m0)\nf.register(m1, priority=-1)\nf.register(m2, priority=1)\nf.register(m3, priority=-2)")
        L.append("F = f.dispatch")
        L.append("for _x in (0, 1, 2, 5, 6, 7, 'q', None):\n    _outcome(lambda: F(_x))\n    for _t in ('a', 'bz', 'c', 3):\n        _outcome(lambda: F(_x, tag=_t))")
        L.append('''def check_entries(x: int, s: str, k: int) -> bool:
    """
    pre: len(s) <= 2
    post: _
    """
    del BAD[:]
    r = _outcome(lambda: F((x, s)[k % 2]))
    r2 = _outcome(lambda: F(x, tag=s))
    return not BAD''')
    L.append('''def reach_some_method(x: int) -> bool:
    """
    post: not _
    """
    return True''')
    return "\n\n".join(L) + "\n"


def mixed_group_module(p, prio_dep=0, mirrored=False, dominated=False):
    """two positions; a STATIC method and a value-dependent method that are unordered (each more specific on one
    position) share a rank: A(x: Dependent[int, p], y: object) / B(x: object, y: int) (+ C(object, object) fallback).
    Documented: p(x) holds -> A and B both match and are unordered -> ambiguity; p(x) fails -> as if A were absent -> B."""
    L = [SPEC_LIB, "f = Ovld()"]
    L.append(f"def q0(x):\n    PRED.append((int, x))\n    return {p}")
    if not mirrored:
        L.append("def m0(x: Dependent[int, q0], y: object):\n    LOG.append(0)\n    return 0")
        L.append("def m1(x: object, y: int):\n    LOG.append(1)\n    return 1")
    else:
        L.append("def m0(x: object, y: Dependent[int, q0]):\n    LOG.append(0)\n    return 0")
        L.append("def m1(x: int, y: object):\n    LOG.append(1)\n    return 1")
    L.append("def m2(x: object, y: object):\n    LOG.append(2)\n    return 2")
    L.append("def m3(x: str, y: str):\n    LOG.append(3)\n    return 3")
    if dominated:
        # a static method that only the dependent method dominates (same bound on the dependent position), unordered with the static method
        # of the group: when the condition fails it competes with that one -- ambiguity either way
        L.append(("def m4(x: object, y: int):" if mirrored else "def m4(x: int, y: object):") + "\n    LOG.append(4)\n    return 4")
    # both registration orders matter for which member leads the group: the module is generated in two orders
    L.append("for _m in (m1, m0):\n    f.register(_m)\nf.register(m2, priority=-1)\nf.register(m3)" if prio_dep else
             "for _m in (m0, m1):\n    f.register(_m)\nf.register(m2, priority=-1)\nf.register(m3)")
    if dominated:
        L.append("f.register(m4)")
    L.append("F = f.dispatch")
    L.append("for _a in (0, 1, 11, -3, True, 'a', None):\n    for _b in (0, 1, 11, -3, True, 'a', None):\n        _outcome(lambda: F(_a, _b))")
    dep_arg = "y" if mirrored else "x"
    L.append(f'''def _spec(x, y):
    holds = (lambda x: {p})({dep_arg})
    return "AMB" if (holds or {dominated!r}) else 1''')
    L.append('def check_ints(x: int, y: int) -> bool:\n    """\n    post: _\n    """\n    return _outcome(lambda: F(x, y)) == _spec(x, y) and _pred_ok()')
    L.append('def reach_static(x: int, y: int) -> bool:\n    """\n    post: not _\n    """\n    return _outcome(lambda: F(x, y)) == 1')
    L.append('def reach_amb(x: int, y: int) -> bool:\n    """\n    post: not _\n    """\n    return _outcome(lambda: F(x, y)) == "AMB"')
    L.append('def check_other(s: str, y: int) -> bool:\n    """\n    pre: len(s) <= 2\n    post: _\n    """\n    return _outcome(lambda: F(s, s)) == 3 and _pred_ok()')
    return "\n\n".join(L) + "\n"
