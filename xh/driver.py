"""E1 driver: run CrossHair (z3) on generated harness modules whose dispatchers are already built and resolved.

A harness module builds its overloaded functions natively at import time, warms every argument-type tuple, and
exposes functions with PEP-316 docstrings:
    check_*  ("post: _")      the property, compared with an independent plain-Python oracle
    reach_*  ("post: not _")  reachability twins: CrossHair must find a counterexample (the method / outcome is reached)
Verdicts:  "Confirmed over all paths" -> discharged;  counterexample on check_* -> replayed natively, VIOLATION iff
it reproduces;  anything else (not confirmed, unable to meet precondition, timeout, crash) -> inconclusive.
"""

import ast
import json
import os
import re
import shutil
import subprocess
import sys
import tempfile
import time
from concurrent.futures import ThreadPoolExecutor

VERIF = os.path.dirname(os.path.dirname(os.path.abspath(__file__)))
PY = os.path.join(VERIF, ".venv", "bin", "python")
OVLD_SRC = os.environ.get("OVLD_SRC", "/repo/src")

HEADER = '''import sys
sys.path.insert(0, {src!r})
import ovld as _ovld_mod, os as _os
assert _os.path.realpath(_ovld_mod.__file__).startswith(_os.path.realpath({src!r})), _ovld_mod.__file__
'''


def _functions(src):
    """[(name, first line, last line)] of top-level functions"""
    out = []
    for node in ast.parse(src).body:
        if isinstance(node, ast.FunctionDef):
            out.append((node.name, node.lineno, node.end_lineno))
    return out


def _arg_types(src):
    """{function name: [annotation source of each parameter]}"""
    out = {}
    for node in ast.parse(src).body:
        if isinstance(node, ast.FunctionDef):
            out[node.name] = [ast.unparse(a.annotation) if a.annotation is not None else "object" for a in node.args.args]
    return out


GRID = {"int": [-3, -1, 0, 1, 2, 3, 4, 5, 6, 7, 11, 12], "bool": [False, True], "str": ["", "a", "b", "ab", "az", "xy", "{"]}


def native_grid(path, fname, arg_types, limit=600):
    """fallback for a condition CrossHair could not decide: evaluate it natively on a small grid of concrete arguments
    (honouring its `pre:` lines).  Returns (violating call text or None, number of points evaluated)."""
    import itertools

    doms = [GRID.get(t) for t in arg_types]
    if any(d is None for d in doms):
        return None, 0
    pts = list(itertools.islice(itertools.product(*doms), limit))
    code = ("import runpy, re, inspect\n"
            f"ns = runpy.run_path({path!r})\n"
            f"fn = ns[{fname!r}]\n"
            "pres = [l.split('pre:', 1)[1].strip() for l in (fn.__doc__ or '').splitlines() if l.strip().startswith('pre:')]\n"
            "names = list(inspect.signature(fn).parameters)\n"
            f"n = 0\nfor pt in {pts!r}:\n"
            "    env = dict(ns); env.update(zip(names, pt))\n"
            "    if not all(eval(p, env) for p in pres):\n        continue\n"
            "    n += 1\n"
            "    if fn(*pt) is not True:\n"
            "        print('GRID-VIOLATION', fn.__name__ + repr(tuple(pt)) if len(pt) != 1 else fn.__name__ + '(' + repr(pt[0]) + ')')\n        break\n"
            "print('GRID-POINTS', n)\n")
    env = dict(os.environ, PYTHONPATH=OVLD_SRC, PYTHONHASHSEED="0", PYTHONDONTWRITEBYTECODE="1")
    try:
        r = subprocess.run([PY, "-c", code], capture_output=True, text=True, timeout=300, env=env)
    except subprocess.TimeoutExpired:
        return None, 0
    m = re.search(r"GRID-VIOLATION (.*)", r.stdout)
    n = re.search(r"GRID-POINTS (\d+)", r.stdout)
    return (m.group(1).strip() if m else None), (int(n.group(1)) if n else 0)


def run_module(src, name, workdir, per_condition_timeout=20, hard_timeout=None):
    src = HEADER.format(src=OVLD_SRC) + src
    path = os.path.join(workdir, name + ".py")
    with open(path, "w") as fh:
        fh.write(src)
    funcs = _functions(src)
    conds = [f for f in funcs if f[0].startswith(("check_", "reach_"))]
    hard = hard_timeout or (per_condition_timeout * len(conds) + 60)
    env = dict(os.environ, PYTHONPATH=OVLD_SRC, PYTHONHASHSEED="0", PYTHONDONTWRITEBYTECODE="1")
    t0 = time.time()
    try:
        r = subprocess.run([PY, "-m", "crosshair", "check", "--report_all", "--per_condition_timeout", str(per_condition_timeout), path],
                           capture_output=True, text=True, timeout=hard, env=env, cwd=workdir)
        out = r.stdout + r.stderr
        timed_out = False
    except subprocess.TimeoutExpired as e:
        out = (e.stdout or b"").decode() if isinstance(e.stdout, bytes) else (e.stdout or "")
        timed_out = True
    wall = time.time() - t0
    atypes = _arg_types(src)
    res = {c[0]: dict(kind=c[0].split("_")[0], verdict="no-verdict", message=None, arg_types=atypes.get(c[0], [])) for c in conds}

    def owner(line):
        for nm, a, b in funcs:
            if a <= line <= b:
                return nm
        return None

    for ln in out.splitlines():
        m = re.match(r"^(.*?):(\d+): (info|error|warning): (.*)$", ln)
        if not m or os.path.basename(m.group(1)) != name + ".py":
            continue
        fn = owner(int(m.group(2)))
        if fn not in res:
            continue
        level, msg = m.group(3), m.group(4)
        if "Confirmed over all paths" in msg:
            res[fn]["verdict"] = "confirmed"
        elif level == "error" and ("when calling" in msg):
            res[fn]["verdict"] = "counterexample"
            res[fn]["message"] = msg
        elif "Not confirmed" in msg or "Unable to meet precondition" in msg:
            res[fn]["verdict"] = "inconclusive"
            res[fn]["message"] = msg
        else:
            res[fn]["verdict"] = "inconclusive"
            res[fn]["message"] = msg[:300]
    import_failed = ("Traceback" in out and all(c["verdict"] == "no-verdict" for c in res.values()))
    return dict(module=name, path=path, conditions=res, wall_s=round(wall, 2), timed_out=timed_out or import_failed,
                raw_tail=out[-600:] if (timed_out or import_failed or not out.strip()) else "")


def replay_native(path, call_text):
    """evaluate `check_x(args)` natively (plain python, no CrossHair); True iff the property is violated there"""
    code = ("import runpy, sys\n"
            f"ns = runpy.run_path({path!r})\n"
            f"r = eval({call_text!r}, ns)\n"
            "print('REPLAY-RESULT', r)\n")
    env = dict(os.environ, PYTHONPATH=OVLD_SRC, PYTHONHASHSEED="0", PYTHONDONTWRITEBYTECODE="1")
    r = subprocess.run([PY, "-c", code], capture_output=True, text=True, timeout=120, env=env)
    m = re.search(r"REPLAY-RESULT (.*)", r.stdout)
    if not m:
        return None, (r.stdout + r.stderr)[-400:]
    return m.group(1).strip() == "False", m.group(1)


def call_of(message):
    m = re.search(r"when calling ((?:check|reach)_\w+\(.*?\))(?: \(which (?:returns|raises).*)?$", message)
    return m.group(1) if m else None


def run_all(harnesses, per_condition_timeout=20, procs=16):
    """harnesses: list of (name, source, meta).  Returns (results, workdir); caller removes workdir."""
    workdir = tempfile.mkdtemp(prefix="ovld-xh-")
    with ThreadPoolExecutor(procs) as ex:
        futs = [ex.submit(run_module, src, name, workdir, per_condition_timeout) for name, src, meta in harnesses]
        results = [f.result() for f in futs]
    for r, (name, src, meta) in zip(results, harnesses):
        r["meta"] = meta
    return results, workdir
