#!/usr/bin/env python3
"""Regenerates MANIFEST.json from tools/manifest_src.py (single source of truth for per-check texts)."""
import json, os, sys
sys.path.insert(0, os.path.dirname(os.path.abspath(__file__)))
from manifest_src import CHECKS, NOT_APPLICABLE, ENGINES, NOTES

props = [json.loads(l)["id"] for l in open(os.path.join(os.path.dirname(__file__), "..", "properties.jsonl"))]
checks = []
for pid in props:
    if pid not in CHECKS:
        continue
    c = CHECKS[pid]
    checks.append(dict(
        property_id=pid,
        quick_cmd=f"./check {pid} --tier quick",
        thorough_cmd=f"./check {pid} --tier thorough",
        evidence_file=f"/verif/evidence/{pid}.json",
        replay_cmd_template=f"./check {pid} --replay {{path}}",
        engine=c["engine"],
        level_claimed=dict(category=c["category"], text=c["text"], design_ref=c["design_ref"]),
        level_note=c["note"],
        technique=c["technique"],
    ))
na = [dict(property_id=p, reason=NOT_APPLICABLE[p]) for p in props if p not in CHECKS]
man = dict(
    version=1,
    setup_cmd="./setup.sh",
    hooks=dict(guard="OVLD_VERIF", enable="no source hooks: checks import /repo/src directly (PYTHONPATH) and inject stubs from outside",
               baseline_off_cmd="cd /repo && /venv/bin/python -m pytest -ra -q -p no:cacheprovider --timeout=900 --continue-on-collection-errors",
               source_commits=[], add_only=True),
    engines=ENGINES,
    checks=checks,
    notes=NOTES,
    not_applicable=na,
)
json.dump(man, open(os.path.join(os.path.dirname(__file__), "..", "MANIFEST.json"), "w"), indent=1)
print("checks:", [c["property_id"] for c in checks], "not claimed:", [x["property_id"] for x in na])
