#!/usr/bin/env python3
"""tools/mkmut.py <out.diff> <file under /repo> <old> <new>  -- make a one-replacement patch against /repo's working tree"""
import difflib, sys
out, path, old, new = sys.argv[1:5]
src = open("/repo/" + path).read()
assert src.count(old) >= 1, "old text not found"
mut = src.replace(old, new, 1)
d = difflib.unified_diff(src.splitlines(True), mut.splitlines(True), "a/" + path, "b/" + path)
open(out, "w").write("".join(d))
