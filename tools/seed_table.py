#!/usr/bin/env python3
"""tools/seed_table.py : regenerate the table of DESIGN.md section 9.1 (between the SEEDED-TABLE markers) from /verif/seeded/*/meta.json"""
import glob, json, os, re
V = os.path.dirname(os.path.dirname(os.path.abspath(__file__)))
rows, first_yes, now = [], 0, dict(caught=0, neutralised=0, missed=0)
per_round = {}
for f in sorted(glob.glob(os.path.join(V, "seeded", "*", "meta.json"))):
    sid = f.split("/")[-2]
    d = json.load(open(f))
    rc = d.get("recheck_on_current_tree", {})
    suffix = sid[3:]
    rnd = {"": 1, "b": 2, "c": 3, "d": 4, "e": 5, "f": 6, "g": 7, "h": 8, "i": 9, "j": 10, "k": 11, "l": 12}.get(suffix, d.get("round", "?"))
    fc = bool(d.get("first_contact_caught"))
    first_yes += fc
    pr = per_round.setdefault(rnd, [0, 0]); pr[0] += fc; pr[1] += 1
    if rc.get("quick_check_reports_it"):
        st = "caught"
    elif rc and not rc.get("still_breaks_property"):
        st = "neutralised" + (f" ({d['neutralised_by']})" if d.get("neutralised_by") else "")
    else:
        st = "missed"
    now[st.split()[0]] += 1
    cell = lambda t: re.sub(r"\s+", " ", (t or "")).replace("|", "/")[:200]
    rows.append(f"| {sid} | {rnd} | {cell(d.get('summary'))} | {cell(d.get('needs_to_manifest'))[:160]} | {'yes' if fc else 'no'} | {st} |")
hdr = ["| id | round | change | needs | first | now |", "|---|---|---|---|---|---|"]
stats = (f"{len(rows)} changes; first contact: {first_yes} caught ("
         + ", ".join(f"round {r}: {a}/{b}" for r, (a, b) in sorted(per_round.items(), key=lambda x: (not isinstance(x[0], int), x[0] if isinstance(x[0], int) else 0))) + "); now: "
         + ", ".join(f"{v} {k}" for k, v in now.items()) + ".")
text = "\n".join(["<!-- SEEDED-TABLE:BEGIN (tools/seed_table.py) -->", stats, ""] + hdr + rows + ["<!-- SEEDED-TABLE:END -->"])
p = os.path.join(V, "DESIGN.md")
s = open(p).read()
if "<!-- SEEDED-TABLE:BEGIN" in s:
    s = re.sub(r"<!-- SEEDED-TABLE:BEGIN.*?<!-- SEEDED-TABLE:END -->", lambda m: text, s, flags=re.S)
    open(p, "w").write(s)
    print(stats)
else:
    print(text)
