ENGINES = [
    dict(name="symx", path="/verif/symx", kind_free_text="model-guided symbolic execution of the real ovld code on z3: symbolic class hierarchy (metaclass stubs), symbolic integer priorities, finite selectors; path-condition blocking; closed-form or differential oracles; native replay",
         serves_properties=[]),
    dict(name="crosshair", path="/verif/xh", kind_free_text="CrossHair 0.0.110 (z3) on warm dispatchers with symbolic int/str argument values", serves_properties=[]),
]
NOTES = ("Every check imports ovld from /repo/src (asserted at start-up) and decides its property by SMT queries over path "
         "classes of the real code; bounds, stubs and don't-care regions are written into each evidence file. Exit 3 = harness error.")
PENDING = "check under construction in this round; not claimed until its harness is committed and passes on the unchanged tree"
NOT_APPLICABLE = {}

CHECKS = {}
CHECKS["C02"] = dict(
    engine="symx", category="model_checking", design_ref="DESIGN.md §3, §6 C02",
    technique="symbolic execution of the real resolution code over a symbolic class hierarchy and integer priorities (z3), closed-form rule oracle, UNSAT per path class",
    text=("Bounded symbolic model checking of the real dispatch code: for each enumerated method-type assignment the subclass relation among the "
          "harness classes and all priorities are solver variables; the code runs once per class of inputs it cannot distinguish and one UNSAT query "
          "per class shows the documented rule (closed formula) agrees with the observed outcome for every hierarchy and every integer priority "
          "assignment in it; exhaustion of each shape's input space is a solver verdict. Candidates are replayed on real classes before reporting."),
    note=("Trusted: z3 5.1.0, CPython 3.12, the SymMeta/SymInt stubs (validated by native replays of sampled passing classes), the closed-form oracle. "
          "Bounds: n<=4 classes (5 sampled in thorough), <=3-4 methods, 1-2 positions (3 sampled in thorough) + one keyword-only parameter; quick tier samples "
          "shapes (970); thorough ~21000 shapes in ~15 min. "
          "Recorded finding C02-integer-levels is excluded by a mechanism-level predicate inside the query."),
)

CHECKS["C12"] = dict(
    engine="symx", category="model_checking", design_ref="DESIGN.md §6 C12",
    technique="symbolic execution of the real typeorder over a symbolic class hierarchy (z3); mirror/reflexivity differential within each path class, closed-form laws as SMT formulas",
    text=("For every pair of type terms up to the stated depth, typeorder runs in both directions once per class of hierarchies it cannot "
          "distinguish; mirror symmetry and reflexivity are decided per class, and the laws the statement prescribes (order = subclassing on classes, "
          "generic below its origin and argument-wise, union above / intersection below each member, dependent below its bound and the bound's "
          "superclasses, Literal below its value type) are z3 formulas over the hierarchy variables checked for UNSAT of their negation. "
          "Pair enumeration is exhaustive within the term universe; each pair's hierarchy space is exhausted by the solver."),
    note=("Bounds: quick n=3 classes, depth-1 terms (45 terms, 990 pairs); thorough n=4, depth-2 (69 terms, 2415 pairs). Recorded hook-disagreement "
          "findings are excused only for the listed constructor pair AND answer pair AND only when each answer is what that operand's own hook "
          "returns. Whatever excluded. Trusted: z3, SymMeta stub (validated by native replay of one passing class per pair)."),
)

CHECKS["C13"] = dict(
    engine="symx", category="model_checking", design_ref="DESIGN.md §6 C13",
    technique="symbolic execution of the real subclasscheck / isinstance / dispatch over a symbolic class hierarchy (z3) against closed-form membership formulas",
    text=("For every type term (classes, Union, Intersection, Exactly, StrictSubclass, HasMethod, Deferred, nested to depth 2) and every value class, "
          "subclasscheck, isinstance and an end-to-end dispatch (method on T over a lower-priority fallback on object) are executed once per class of "
          "hierarchies they cannot distinguish and compared, by an UNSAT query, with the documented meaning written as a z3 formula over the hierarchy "
          "variables; reflexivity, equality with issubclass on classes (hence transitivity) and argument-wise covariance on list/dict generics are "
          "checked the same way on pairs. Enumeration of terms is exhaustive within the universe; hierarchies are exhausted by the solver."),
    note=("Bounds: n=3 (quick) / 4 (thorough) classes, depth-2 terms; ABCs/protocols are covered as arbitrary issubclass answers of the stub and "
          "replayed as real inheritance. Trusted: z3, SymMeta stub (validated by native replay per shape), the membership formulas."),
)
CHECKS["C14"] = dict(
    engine="symx", category="model_checking", design_ref="DESIGN.md §6 C14",
    technique="symbolic execution of the real dispatch on type-valued arguments over a symbolic class hierarchy and priorities (z3), closed-form subtype rule oracle",
    text=("Method sets annotated with type[...] (classes, list/dict/tuple generics, nested, bare type, object) mixed with plain positions are called "
          "with classes, parametrised generics, nested parametrisations, typing.Any and ordinary instances; per class of (hierarchy, priorities) the "
          "outcome is compared by an UNSAT query with the documented subtype rule (subclass for classes, same-or-subclass origin and argument-wise "
          "subtyping for generics, Any = object, bare type = type[object]) combined with the priority/specificity rule."),
    note=("Bounds: 3 classes, 2-3 methods, 1-2 positions, shapes sampled (quick 1600, thorough ~19000 of 480k). Inherits the recorded finding "
          "C02-integer-levels through the same mechanism-level exclusion. Trusted: z3, stubs (validated by native replay per shape)."),
)

CHECKS["C07"] = dict(
    engine="symx", category="model_checking", design_ref="DESIGN.md §6 C07",
    technique="symbolic execution of the real call_next / f.next continuation lookup over a symbolic class hierarchy and priorities (z3); step-wise closed-form oracle along the logged chain",
    text=("Method sets in which any subset of the methods delegate (call_next with the same arguments, f.next, call_next with an instance of another "
          "class; plain functions and methods with self) are run once per class of (hierarchy, priorities) the real code cannot distinguish. The logged "
          "chain of entered methods is compared step by step, by an UNSAT query, with the documented meaning: the next method is the rule's winner among "
          "the applicable methods the caller beats; 'No method' iff that set is empty, 'Ambiguous' iff it has no winner; a caller not applicable to the "
          "forwarded arguments behaves like a fresh call; no method is visited twice."),
    note=("Bounds: 3 classes (4 in the four-method family), 3-4 methods, 1-2 positions, plain functions / methods with self / methods made by one factory; "
          "shapes sampled in the quick tier (610 of 9.2k), all in thorough. "
          "Don't-care: caller tied with another applicable method for the forwarded arguments. Recorded findings excluded by mechanism-level predicates: "
          "C02-integer-levels (per step), C07-fnext-drops-self, C07-fnext-shared-code, C07-upper-rank-tie. Variants/mixins supplying part of the chain are exercised by C08/C16."),
)

CHECKS["C04"] = dict(
    engine="symx", category="model_checking", design_ref="DESIGN.md §6 C04",
    technique="symbolic execution of the real cache-miss / cache-hit paths over a symbolic hierarchy, priorities and call history (z3 selectors); differential oracle against a fresh build under the same model",
    text=("A shared function receives a history of calls whose argument classes (and value-dependent flags) are chosen by solver selectors, then the "
          "same calls again; every call's outcome (chain of entered methods, result or error kind) must equal that of the first call ever made on a "
          "function freshly built from the same methods under the same model. Method sets include call_next chains, swallowed continuation errors, "
          "call_next/recurse with other arguments and value-dependent methods, so continuation entries and remembered errors exist. One exploration "
          "per method set; the solver exhausts hierarchies, priorities and histories up to the budget."),
    note=("Bounds: 3 classes, 1-3 methods, 1-2 positions, histories of 4 calls (2 chosen + 2 repeats), arguments from {K0, K1, object()}; shapes sampled "
          "(100 quick / 3700 thorough). A differential oracle sees history dependence only, not a rule violation present from the first call "
          "(that is C02/C07/C10)."),
)
CHECKS["C05"] = dict(
    engine="symx", category="model_checking", design_ref="DESIGN.md §6 C05",
    technique="symbolic execution of register/unregister/recompile paths over a symbolic hierarchy and priorities (z3); differential oracle against an object built from the live method list",
    text=("Histories of register / re-register-same-signature / unregister operations on an Ovld (4-5 operations) and of registrations on the public "
          "MultiTypeMap (3-4), with probes after each operation, are executed once per class of (hierarchy, priorities); every probe must equal the "
          "same probe on an object built directly from the live methods under the same model."),
    note=("Bounds: 3 classes, pool of 4 methods (one duplicating another's signature and priority), bodies return / call_next / recurse(other); "
          "histories and probe patterns enumerated and sampled (480 quick, ~6.8k thorough). Two defects found by this check were repaired "
          "(c4ac278, 60b1be0) and are listed as fixed."),
)

CHECKS["C06"] = dict(
    engine="symx", category="model_checking", design_ref="DESIGN.md §6 C06",
    technique="symbolic execution of the real resolution code with the iteration order of ovld's internal sets, the registration order and the presence of non-applicable methods as solver variables (z3), over a symbolic hierarchy; differential oracle against the canonical run",
    text=("PermSet replaces the module-level name `set` of ovld.typemap/mro/recode/core: every element carries one symbolic rank and every set "
          "iterates in rank order, so the solver enumerates the iteration orders a hash seed could produce; the registration permutation and two "
          "non-applicable extra methods (other arity with any harness class on its first position; unrelated concrete class) are selectors. For each "
          "class of (hierarchy, priorities, orders, extras) the outcome must equal the canonical run's under the same hierarchy and priorities."),
    note=("Bounds: 3 classes (4 for the plain-class families), 2-3 distinct signatures over classes / Union / Intersection / Exactly / StrictSubclass / "
          "Dependent; quick: equal priorities and one varied dimension at a time; thorough: symbolic priorities and joint variation. Set order modelled "
          "as one global ranking (exact for tables without collisions). Recorded findings excluded by mechanism predicates: extras change the integer "
          "layering (C02-integer-levels mechanism, both outcomes must be rule-or-mechanism explained), asymmetric typeorder between two applicable "
          "registered types (C12 hook findings)."),
)

CHECKS["C20"] = dict(
    engine="symx", category="model_checking", design_ref="DESIGN.md §6 C20",
    technique="symbolic execution of the real dispatch with user predicates / type-order hooks / subtype hooks answering from solver variables and counting their consultations (z3 path classes); zero-consultation assertion on warm calls",
    text=("Method sets annotated with harness classes, class_check(predicate) types and a user type carrying __type_order__/__is_supertype__ hooks "
          "are warmed up with one call per argument class (bodies delegate through call_next and recurse, so continuation entries are warmed too); "
          "every answer of a predicate, hook or issubclass on a harness class is a solver variable and every consultation is counted. On each path "
          "class a repeated call that had succeeded must not move the counter (nor compare priorities); after a registration the function is "
          "re-warmed and the same must hold. Every fourth method set is called through a linkback copy whose parent is used for the first time "
          "between the phases (not a change: no consultation allowed afterwards) and which receives the late registration through the parent."),
    note=("Bounds: 3 classes, 3 methods (+1 late), 1 position, arguments K0/K1/object(); 160 / 640 method sets, per-shape exploration budget 4 s quick / 25 s thorough: "
          "shapes whose space is not exhausted are reported as inconclusive counts, never as passed-exhaustively. Calls that fail in the warm-up are "
          "outside the statement."),
)

CHECKS["C01"] = dict(
    engine="symx", category="model_checking", design_ref="DESIGN.md §6 C01",
    technique="symbolic execution of the real dispatch (direct, recurse, call_next) over a symbolic class hierarchy, has-method facts and priorities (z3); closed-form membership asserted on every logged method entry",
    text=("Sampled method sets (1-2 positionals with an optional one, keyword-only parameter, annotations from classes, object, Union, Intersection, "
          "Exactly, StrictSubclass, HasMethod nested to depth 2; bodies delegating through call_next / recurse with the same or differently typed "
          "arguments) are called with several call shapes. Every method body logs the objects it receives; per class of (hierarchy, has-method, "
          "priorities) an UNSAT query shows that every supplied argument of every entered method is a member of the declared annotation by its "
          "documented meaning; a handler invoked with a positional count or keyword set it does not accept surfaces as Python's own binding error "
          "and is a violation. Value-dependent annotations are decided by the CrossHair harnesses of C10/C11 (method bodies assert their condition)."),
    note=("Bounds: 3 classes, 2-3 methods, 4 calls per set, 700 sampled sets quick / 9000 thorough, 10 s / 60 s exploration budget per set; plus three CrossHair "
          "harness modules (keyword-only Literal / Dependent parameters, positional Literal / Dependent / tuple[...] mix) whose bodies re-check their own conditions. Pure safety: "
          "which method or error is C02's subject. Native validation compares verdicts, not observations, because the sets include types with the "
          "recorded order-dependence (C06)."),
)
CHECKS["C03"] = dict(
    engine="symx", category="model_checking", design_ref="DESIGN.md §6 C03",
    technique="symbolic execution of the real generated entry point and dispatch over a symbolic hierarchy and priorities (z3) for enumerated signature sets and call shapes; oracle inspect.signature(original).bind + identity of sentinels",
    text=("Sampled signature sets (required / optional / positional-only positionals, required / optional keyword-only parameters, functions and methods "
          "with self, uniform or differing names, distinct sentinel defaults) are called with up to 10 call shapes each. For the method that ran, the "
          "objects bound to every parameter must be identical to what inspect.signature(original).bind(...).apply_defaults() gives, the caller must "
          "receive the very sentinel returned or the very exception raised, self must be the instance; a dispatcher-side rejection is accepted only if "
          "the closed-form rule finds no applicable method for that call shape (UNSAT query per path class). The hierarchy and priorities are symbolic "
          "so that every selectable method is exercised."),
    note=("Bounds: 3 classes, 1-3 methods, 0-2 positionals (3 thorough), keywords {k, j}; 1500 sampled sets quick / 12000 thorough. The signature-set and "
          "call-shape quantifiers are enumerated, not symbolic. Defect fixed: 2885376 (keywords dropped). Recorded finding: C03-empty-call."),
)

CHECKS["C15"] = dict(
    engine="symx", category="model_checking", design_ref="DESIGN.md §6 C15",
    technique="symbolic execution of the real normalisation + dispatch for two spellings of one annotation over a symbolic hierarchy and priorities (z3); differential oracle between the two functions under the same model",
    text=("For each listed pair of equivalent spellings (typing.Union / | / tuple / member reorderings, Optional / | None, missing / Any / object, "
          "Annotated, string annotations, list[A] / typing.List[A], Literal value reorderings) and each surrounding method set, two functions are built "
          "and probed with the same arguments once per class of (hierarchy, priorities); every probe must have the same outcome. The pair and surround "
          "enumeration is exhaustive within the listed universe and the solver exhausts each pair's hierarchy/priority space."),
    note=("Bounds: 3 classes, 37 spelling pairs x 12 surrounding sets, probes = instances, object(), None, small corpora of lists / literal values. "
          "Differences explained by the recorded C06-asymmetric-typeorder mechanism (an applicable pair of registered types with non-mirror typeorder in "
          "BOTH functions) are excused per probe. Defect fixed: 47abe4c (Literal bound from first value)."),
)

CHECKS["C16"] = dict(
    engine="symx", category="model_checking", design_ref="DESIGN.md §6 C16",
    technique="symbolic execution of the real copy / variant / add_mixins / register / unregister / lock / propagate code over a symbolic hierarchy and priorities (z3) along enumerated operation histories; reference ledger + flat-function differential oracle",
    text=("Histories of create / copy / variant / add-mixin / register / unregister / use operations over up to four functions (with and without "
          "linkback) run once per class of (hierarchy, priorities). A ledger kept by the harness predicts, for every modification, whether it must be "
          "refused (the node is an ancestor, through a path containing a non-linked step, of a function already used) or accepted and visible in every "
          "used descendant reached through linkback; every use and the final use of every node must equal a fresh underived function built from the "
          "node's flattened method list (parents first, own last, own replacing identical signatures) under the same model."),
    note=("Bounds: <= 4 nodes, pool of 6 methods, histories of 4-7 operations (quick: 500 random + 112 structured derivation chains; thorough: 8000 random, "
          "5-9 operations), forests with fan-in <= 2 without diamonds. Two defects found by this check were repaired (4f35687, 0977ac3)."),
)

CHECKS["C08"] = dict(
    engine="symx", category="model_checking", design_ref="DESIGN.md §6 C08",
    technique="symbolic execution of the real adapt/recode + dispatch of recursive methods in graphs of derived functions over a symbolic leaf hierarchy and priorities (z3); differential oracle against a flat underived function",
    text=("Graphs of functions built with copy / variant / add_mixins / register (random build histories plus the documented walker/variant patterns) "
          "place recursive container methods (list and dict via recurse, one reaching recurse through a closure cell, tuple via the root function's own "
          "name, an overriding container) and leaf methods (overriding ones, one using call_next) on the nodes. Every node is called with six nested "
          "inputs once per class of (leaf hierarchy, priorities); result and leaf-entry log must equal those of a fresh underived function carrying the "
          "node's flattened method list, children first and every ancestor again afterwards; any error other than the two dispatch errors is a violation."),
    note=("Bounds: <= 5 nodes, 10 pool methods, build histories of 3-6 operations (600 sampled quick / 8000 thorough + 5 patterns), inputs nested to depth 3. "
          "The flat reference is itself an ovld function (recurse there trivially means 'this function')."),
)
CHECKS["C17"] = dict(
    engine="symx", category="model_checking", design_ref="DESIGN.md §6 C17",
    technique="symbolic execution of the real metaclass / class-namespace merging and bound-method dispatch over a symbolic argument hierarchy (z3) for generated class programs; per-class reference table + flat-function differential oracle",
    text=("Programs of 2-5 user classes (OvldBase or metaclass=OvldMC roots, subclasses with one or two bases, a mixin class without the metaclass) with "
          "0-3 same-named definitions per body and extend_super markers are generated as source and executed; after all classes exist, instances of every "
          "class are probed once per class of argument hierarchies. The expected behaviour of each class comes from a method table computed by the "
          "generator (own definitions; with extend_super the tables of all bases first, identical signatures replaced; a single definition is an "
          "ordinary method; an extend_super marker with nothing to extend survives on a root or plain mixin class and makes a class listing it as a "
          "non-first base merge it) realised as a flat overloaded function of module-level twins; chains, results/errors and the identity of self must agree."),
    note=("Bounds: 900 sampled programs quick / 10000 thorough; bodies return / call_next / recurse over a nested list; the program quantifier is enumerated, "
          "only the argument hierarchy is symbolic. extend_super on a non-first definition and priorities inside class bodies are outside the claim."),
)

CHECKS["C18"] = dict(
    engine="symx", category="model_checking", design_ref="DESIGN.md §6 C18",
    technique="the crash point (index of the executed ovld source line at which an exception is injected through sys.monitoring) is a solver integer enumerated to exhaustion with path-condition blocking (z3), optionally jointly with a symbolic hierarchy; differential oracle against a cleanly built function",
    text=("For first-use build, rebuild after a registration on a used function and cache-miss resolution (method sets with call_next continuations, a "
          "value-dependent method and a recursive container method), an InjectedFault is raised when the kappa-th executed source line of ovld or of "
          "its generated code is about to run; kappa is a solver variable whose every value (and 'beyond the end') is one path class. Afterwards calls "
          "through the public function object and through resolve() must equal those of a cleanly built function with the complete method set "
          "(for an interrupted register(): the set the function lists afterwards). "
          "Natural failures (conflicting argument names, call_next not called, unreadable source at every registration position, also arriving on a "
          "function already in use and on one with a linkback copy in use; a user class "
          "predicate raising on its j-th invocation) must keep failing with a configuration error and the function must work normally once the "
          "offender is unregistered."),
    note=("Bounds: one fault per run, between source lines; quick: 7 scenarios x ~1000-2500 crash points on a fixed hierarchy (exhaustive), 27 natural-failure "
          "shapes, 2 hook shapes; thorough: 18 scenarios with the hierarchy symbolic as well. Here the solver is the bounded model checker's "
          "bookkeeper (finite domain), as DESIGN.md states. Three defects found by this check were repaired (3a088b7, c16687c, a6739d8); the window between a "
          "table change and the take-out-of-service step is a recorded finding (C18-interrupt-before-takeout)."),
)

CHECKS["C19"] = dict(
    engine="symx", category="model_checking", design_ref="DESIGN.md §6 C19",
    technique="pre-emption points (index of the executed ovld source line at which thread A loses the processor to thread B; optionally a second point in B) as solver integers enumerated to exhaustion with path-condition blocking (z3); real threads under a cooperative baton driven by sys.monitoring LINE events; differential oracle against solitary and sequential runs",
    text=("Two real threads call the same function (racing first calls with equal / different argument types, racing cache misses, a call racing a "
          "call_next chain, a call racing resolve()). A baton makes exactly one of them runnable; every executed ovld source line of thread A is a "
          "possible switch point and the solver enumerates them all (one path class per schedule, plus 'no pre-emption'); a thread that would block on "
          "the function's build lock hands the turn back. Each thread's outcome must equal its outcome alone on a fresh function and afterwards every "
          "probe must equal the sequentially used function; a hang is a violation. A lock hand-over family starts B while A builds (B waits for the "
          "build lock), then pre-empts A after the release and B after it obtained the lock (two further solver integers, stepped)."),
    note=("Bounds: 2 threads, 1 pre-emption at every line (quick: 6 scenarios, ~8200 schedules, exhaustive, plus ~5000 hand-over schedules at every 10th line of A and of B; thorough: 10 scenarios plus 2 pre-emptions on "
          "a reduced set of first switch points), fixed hierarchy, line granularity (switches inside a line are outside the claim). The solver's role is "
          "finite-domain bookkeeping. Defect repaired: 537fde9 (unsynchronised lazy build)."),
)

CHECKS["C10"] = dict(
    engine="crosshair", category="model_checking", design_ref="DESIGN.md §4, §6 C10",
    technique="CrossHair (z3) symbolic execution of the real generated entry point, generated value-dependent dispatchers, user predicates and method bodies on symbolic int / bool / str arguments; plain-Python oracle from the documentation; native replay of counterexamples",
    text=("Random method sets mixing Dependent[bound, predicate] and static methods (bounds int / bool / str / object, priorities, one position; plus "
          "two-position sets with a dependent type on either position) are built and fully resolved natively at import; CrossHair then executes the "
          "warm dispatch path on symbolic arguments and must confirm, over all paths, that the method that ran is the one the documentation prescribes "
          "(condition holds -> preferred over bound and subclasses; fails -> as if absent; two unordered ones hold -> ambiguity error) and that no "
          "predicate ever saw a non-instance of its bound. Each condition has reachability twins per method and for the ambiguity outcome."),
    note=("Bounds: int unbounded, bool, str len <= 2 (quick) / 3 (thorough); 90+16 method sets quick, 600+120 thorough; 20 s / 90 s per condition; "
          "conditions not confirmed are reported as inconclusive. Trusted: CrossHair 0.0.110 confirmations (its counterexamples are replayed natively)."),
)
CHECKS["C11"] = dict(
    engine="crosshair", category="model_checking", design_ref="DESIGN.md §4, §6 C11",
    technique="CrossHair (z3) symbolic execution of the real generated dispatchers (if-chain, lookup-table, counting strategies) and emitted value checks on symbolic values; oracle = documented meaning written out; native replay of counterexamples",
    text=("Literal method sets on both sides of the lookup-table threshold (1-6 literal methods, 1-3 values, disjoint / overlapping, mixed value types, "
          "next to int / object / a non-literal dependent method) and the built-in value types (tuple[...], list[...], Sequence / Collection / Mapping "
          "element checks, StartsWith, EndsWith, Regexp, HasKey, & and | combinations) are warmed natively, then dispatched on symbolic values; the "
          "method with annotation T must run exactly when T's documented meaning holds, whatever strategy was generated. isinstance(value, T) against "
          "the meaning is checked natively on a corpus (CrossHair's patched isinstance does not honour ovld's metaclass hooks)."),
    note=("Bounds: int unbounded, bool, str len <= 3, containers built from symbolic elements with a symbolic shape index; 40 Literal sets + 11 value-type "
          "modules quick, 320 thorough. tuple nested in tuple is outside E1's reach (see DESIGN.md). Defects repaired: 0d06ebd, 2d121dc (and afddf13, "
          "47abe4c found through C12/C15)."),
)

CHECKS["C09"] = dict(
    engine="crosshair", category="model_checking", design_ref="DESIGN.md §6 C09",
    technique="CrossHair (z3) symbolic execution of the real rewritten methods on symbolic int inputs against the same source text compiled unchanged with recurse / call_next bound to a plain-Python reference dispatcher; acceptance pass over every generated body",
    text=("38 method bodies place recurse / call_next / self-name calls in the expression contexts of the statement (nested calls, comprehension "
          "element / condition / nested, dict and set comprehensions, lambda, nested and decorated def, conditional and boolean operators, chained "
          "comparison, f-string, keyword / starred / double-starred arguments, walrus, try/finally, try/except, generator with laziness, closures over "
          "one and two factory variables, keyword-only default, self name, exceptions raised after and inside the call, while loop, two positions with "
          "nested calls). Each sits on a linear chain A -> B -> C (+ str) so that the meaning of recurse and call_next is known without ovld. CrossHair "
          "must confirm for all inputs in range that the registered method and the unmodified source with plain callables agree on result or exception "
          "type, the order of side effects, generator laziness, and the file and line reported for an exception; every body must be accepted."),
    note=("The program quantifier is enumerated (fixed grammar sample); only the input quantifier (ints 0..3 quick / 0..4 thorough per position) is "
          "symbolic. Bodies of the two recorded findings (call in a comprehension's iterable; call_next with */** / keyword-for-positional) are "
          "excluded by name. Defect repaired: 5107a7d."),
)
