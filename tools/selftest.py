#!/usr/bin/env python3
"""tools/selftest.py [prefix...] : run each selftest/<cNN>_*.diff mutant against its property's quick check
(OVLD_SRC -> scratch copy); every mutant must make the check exit 1 with a VIOLATION line."""
import glob, os, subprocess, sys
from concurrent.futures import ThreadPoolExecutor
V = os.path.dirname(os.path.dirname(os.path.abspath(__file__)))
pats = sys.argv[1:] or [""]
files = sorted(f for f in glob.glob(os.path.join(V, "selftest", "*.diff")) if any(os.path.basename(f).startswith(p) for p in pats))
def one(f):
    pid = os.path.basename(f).split("_")[0].upper()
    r = subprocess.run([os.path.join(V, "tools", "with_patch"), f, os.path.join(V, "check"), pid], capture_output=True, text=True)
    caught = r.returncode == 1 and "VIOLATION property=" + pid in r.stdout
    return f, r.returncode, caught, r.stdout.strip().splitlines()[-1][:160] if r.stdout.strip() else r.stderr[-200:]
with ThreadPoolExecutor(2) as ex:
    res = list(ex.map(one, files))
bad = 0
for f, rc, caught, last in res:
    print(("CAUGHT " if caught else "MISSED ") + os.path.basename(f), f"rc={rc}", "|", last)
    bad += not caught
print(f"{len(res) - bad}/{len(res)} mutants caught")
sys.exit(1 if bad else 0)
