#!/usr/bin/env python3
"""tools/seed_recheck.py [ID...] : for every /verif/seeded/<ID>/ (patch.diff, demo.py, meta.json) apply the patch to a scratch copy
of /repo's CURRENT tree (tools/with_patch) and record in meta.json: does it still apply, does the existing test suite still pass
with it, does the demo fail with it and pass without it, and does the property's quick check report it (VIOLATION, exit 1)."""
import json, os, re, subprocess, sys
V = os.path.dirname(os.path.dirname(os.path.abspath(__file__)))
WP = os.path.join(V, "tools", "with_patch")
ids = sys.argv[1:] or sorted(os.listdir(os.path.join(V, "seeded")))
summary = []
for sid in ids:
    d = os.path.join(V, "seeded", sid)
    pid = re.match(r"(C\d+)", sid).group(1)
    patch = os.path.join(d, "patch.diff")
    meta = json.load(open(os.path.join(d, "meta.json")))
    r = subprocess.run([WP, patch, "sh", "-c",
                        "cd $OVLD_SRC/.. && PYTHONPATH=$OVLD_SRC /venv/bin/python -m pytest -q -p no:cacheprovider tests 2>&1 | tail -1; "
                        f"PYTHONPATH=$OVLD_SRC /venv/bin/python {d}/demo.py >/dev/null 2>&1; echo DEMO_WITH=$?"],
                       capture_output=True, text=True)
    applies = "patch failed" not in r.stdout + r.stderr
    tests = next((l for l in r.stdout.splitlines() if "passed" in l or "failed" in l), "")
    demo_with = int(re.search(r"DEMO_WITH=(\d+)", r.stdout).group(1)) if "DEMO_WITH=" in r.stdout else None
    r0 = subprocess.run(["/venv/bin/python", os.path.join(d, "demo.py")], env=dict(os.environ, PYTHONPATH="/repo/src"), capture_output=True, text=True)
    rc = subprocess.run([WP, patch, os.path.join(V, "check"), pid], capture_output=True, text=True)
    caught = rc.returncode == 1 and f"VIOLATION property={pid}" in rc.stdout
    last = rc.stdout.strip().splitlines()[-1][:160] if rc.stdout.strip() else ""
    still_breaks = applies and demo_with not in (0, None) and r0.returncode == 0
    meta["recheck_on_current_tree"] = dict(patch_applies=applies, tests_with_change=tests.strip(), demo_with_change_rc=demo_with,
                                           demo_unchanged_rc=r0.returncode, still_breaks_property=still_breaks,
                                           quick_check_reports_it=caught, check_last_line=last)
    json.dump(meta, open(os.path.join(d, "meta.json"), "w"), indent=1)
    summary.append((sid, applies, "143 passed" in tests, still_breaks, caught))
    print(sid, "applies" if applies else "PATCH-FAILS", tests.strip()[:40], f"demo with={demo_with} without={r0.returncode}",
          "CAUGHT" if caught else ("neutralised" if not still_breaks else "MISSED"))
bad = [s for s in summary if s[3] and not s[4]]
print(f"{sum(1 for s in summary if s[4])} caught, {sum(1 for s in summary if not s[3])} no longer breaking, {len(bad)} missed")
sys.exit(1 if bad else 0)
