#!/usr/bin/env python3
"""Developer tool (never run by a check): regenerate the C12 hook-disagreement entries of
known_findings.json from the violations a thorough run reports on the CURRENT tree when no finding is
excluded.  Review the diff before committing."""
import glob, json, os, subprocess, sys, collections
V = os.path.dirname(os.path.dirname(os.path.abspath(__file__)))
kfp = os.path.join(V, "known_findings.json")
kf = json.load(open(kfp))
AUG = "--augment" in sys.argv
old = {tuple(e["ctors"]): e for e in kf["findings"] if e["property"] == "C12" and e.get("kind") == "hook-disagreement"}
keep = [e for e in kf["findings"] if not (e["property"] == "C12" and e.get("kind") == "hook-disagreement")]
if not AUG:
    json.dump(dict(kf, findings=keep), open(kfp, "w"), indent=1)
    old = {}
for f in glob.glob(os.path.join(V, "replays", "C12-*.json")):
    os.remove(f)
subprocess.run([os.path.join(V, "check"), "C12", "--tier", "thorough"], stdout=subprocess.DEVNULL)
ORDER = ["U", "I", "Ex", "Dep", "Lit", "tuple"]
NAMES = dict(U="Union", I="Intersection", Ex="Exactly", Dep="Dependent", Lit="Literal", tuple="tuple[...]")
groups = collections.defaultdict(lambda: dict(answers=set(), witness=None, text=None))
other = []
for f in sorted(glob.glob(os.path.join(V, "replays", "C12-*.json"))):
    r = json.load(open(f)); n = r["native_run"]
    a, b = r["shape"]["a"][0], r["shape"]["b"][0]
    d1, d2 = n["ab"], n["ba"]
    if a not in ORDER or b not in ORDER or n["aa"] != "SAME" or n["bb"] != "SAME":
        other.append((f, n)); continue
    if ORDER.index(a) > ORDER.index(b):
        a, b, d1, d2 = b, a, d2, d1
        flipped = True
    else:
        flipped = False
    g = groups[(a, b)]
    g["answers"].add((d1, d2))
    if g["witness"] is None or len(json.dumps(r["shape"])) < len(json.dumps(g["witness"]["shape"])):
        g["witness"] = dict(shape=r["shape"], assignment=r["assignment"])
        g["text"] = f"typeorder({n['a']}, {n['b']}) is {n['ab']} but typeorder({n['b']}, {n['a']}) is {n['ba']} for the hierarchy {r['world']['subclass_of']}"
for k, e in old.items():
    g = groups[k]
    g["answers"].update(map(tuple, e["answers"]))
    g["witness"] = e["witness"]
    g["text"] = e["what"].split("e.g. ", 1)[1]
for (a, b), g in sorted(groups.items()):
    keep.append(dict(property="C12", id=f"C12-hooks-{NAMES[a].split('[')[0]}-{NAMES[b].split('[')[0]}", status="known",
                     kind="hook-disagreement", ctors=[a, b], answers=sorted(map(list, g["answers"])),
                     what=(f"typeorder is not mirror-symmetric on a {NAMES[a]} against a {NAMES[b]}: only the left operand's "
                           f"__type_order__ hook is consulted and the two hooks disagree; e.g. {g['text']}"),
                     witness=g["witness"]))
json.dump(dict(kf, findings=keep), open(kfp, "w"), indent=1)
print("groups:", {k: sorted(v["answers"]) for k, v in groups.items()})
print("NOT hook disagreements (must be looked at):", other)
