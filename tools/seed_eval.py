#!/usr/bin/env python3
"""tools/seed_eval.py <id> [<id>...] : verify an independently produced breaking change under /tmp/seed/<id> (tests still
pass with it, demo fails with it and passes without it), copy it to /verif/seeded/<ID>/ and run the property's quick check
against it (scratch copy through tools/with_patch).  Prints CAUGHT / MISSED."""
import json, os, shutil, subprocess, sys
V = os.path.dirname(os.path.dirname(os.path.abspath(__file__)))
PY = "/venv/bin/python"
BASE_FAIL = {"test_conform", "test_conform_2", "test_display", "test_display_more", "test_doc", "test_doc2", "test_method_doc"}
args = sys.argv[1:]
BASE, SUFFIX = "/tmp/seed", ""
if args and args[0] == "--dir":
    BASE, args = args[1], args[2:]
if args and args[0] == "--suffix":
    SUFFIX, args = args[1], args[2:]
for cid in args:
    d = f"{BASE}/{cid.lower()}"
    pid = cid.upper()
    out = {"property": pid}
    patch = os.path.join(d, "patch.diff")
    if not os.path.exists(patch) or os.path.getsize(patch) == 0:
        print(pid, "NO PATCH"); continue
    # 1. tests with the change
    r = subprocess.run([PY, "-m", "pytest", "-q", "-p", "no:cacheprovider", "tests"], cwd=d, env=dict(os.environ, PYTHONPATH=d + "/src"),
                       capture_output=True, text=True)
    tail = r.stdout.strip().splitlines()[-1] if r.stdout.strip() else ""
    out["tests_with_change"] = tail
    # 2. demo with / without
    r1 = subprocess.run([PY, os.path.join(d, "demo.py")], env=dict(os.environ, PYTHONPATH=d + "/src"), capture_output=True, text=True, cwd=d)
    r0 = subprocess.run([PY, os.path.join(d, "demo.py")], env=dict(os.environ, PYTHONPATH="/repo/src"), capture_output=True, text=True, cwd=d)
    out["demo_with_change_rc"] = r1.returncode
    out["demo_unchanged_rc"] = r0.returncode
    ok = ("143 passed" in tail) and r1.returncode != 0 and r0.returncode == 0
    out["verified"] = ok
    dest = os.path.join(V, "seeded", pid + SUFFIX)
    os.makedirs(dest, exist_ok=True)
    for f in ("patch.diff", "demo.py"):
        shutil.copy(os.path.join(d, f), os.path.join(dest, f))
    meta = {}
    try:
        meta = json.load(open(os.path.join(d, "meta.json")))
    except Exception:
        pass
    # 3. the check against it
    r = subprocess.run([os.path.join(V, "tools", "with_patch"), patch, os.path.join(V, "check"), pid], capture_output=True, text=True)
    caught = r.returncode == 1 and f"VIOLATION property={pid}" in r.stdout
    last = r.stdout.strip().splitlines()[-1][:200] if r.stdout.strip() else r.stderr[-200:]
    meta.update(dict(property=pid, confirmed=out, ran=[f"PYTHONPATH=<worktree>/src {PY} -m pytest tests  -> {tail}",
                                                        f"demo.py with change rc={r1.returncode}, on /repo rc={r0.returncode}",
                                                        f"tools/with_patch seeded/{pid}{SUFFIX}/patch.diff ./check {pid} -> rc={r.returncode}: {last}"],
                     caught_by_quick_check=caught))
    json.dump(meta, open(os.path.join(dest, "meta.json"), "w"), indent=1)
    print(pid, "verified" if ok else "NOT-VERIFIED", "CAUGHT" if caught else "MISSED", f"rc={r.returncode}", "|", last[:150])
