"""C16 -- variants and mixins compose without ever disturbing their parents.

Symbolic: subclass relation R, priorities.  Enumerated: histories of create / copy / variant / add-mixin /
register / unregister / use operations over a graph of functions, with and without linkback.
Oracle: a reference ledger kept by the harness (per node: own methods, parents, linkback, used) from which it
derives (i) the flattened method list of every node -> each use and the final probes of every node must equal a
fresh flat function under the same model, and (ii) whether a modification must be refused (a non-linked ancestor,
direct or transitive, of a used node) or accepted and visible in the used descendant (linked all the way).
"""

import random
import sys
import time

import z3

from lib import runner
from symx.engine import Verdict
from symx.kit import MethodSet, full_outcome
from symx.world import World

PID = "C16"
# pool of candidate methods: (class index or 3=object, priority variable, body kind)
POOL = [(0, 0, "ret"), (1, 0, "next"), (3, 1, "ret"), (0, 0, "next"), (1, 1, "ret"), (2, 0, "next")]


def make_world(ex, shape, real):
    W = World(ex, 3, nprio=2, real=real)
    ex.s.add(W.P[0] != W.P[1])  # identical signature <=> same class and same priority variable (see dont_care)
    return W


def _specs():
    out = []
    for m, (t, p, kind) in enumerate(POOL):
        term = ("obj",) if t == 3 else ("K", t)
        body = f"return {m}" if kind == "ret" else f"return ({m}, call_next(x))"
        out.append(dict(pos=[("x", term, False)], body=body))
    return out


_MS = MethodSet(_specs())


class Ledger:
    def __init__(self):
        self.own = []      # per node: list of method indexes (registration order)
        self.par = []      # per node: list of parent nodes
        self.link = []     # per node: linkback flag
        self.used = []

    def new(self, parents, link):
        self.own.append([])
        self.par.append(list(parents))
        self.link.append(link)
        self.used.append(False)
        return len(self.own) - 1

    def flat(self, v, same_key):
        out = []
        for p in self.par[v]:
            for m in self.flat(p, same_key):
                out = [o for o in out if not same_key(o, m)] + [m]
        for m in self.own[v]:
            out = [o for o in out if not same_key(o, m)] + [m]
        return out

    def ancestors_paths(self, v):
        """yields (ancestor, all_linked) for every derivation path from an ancestor down to v"""
        def rec(node, linked):
            for p in self.par[node]:
                l2 = linked and self.link[node]
                yield p, l2
                yield from rec(p, l2)
        yield from rec(v, True)

    def status(self, a):
        """'locked' if some used node derives from a through a non-linked path only; 'linked' if a used node derives
        from it through an all-linkback path; 'free' otherwise"""
        locked = linked = False
        for v in range(len(self.own)):
            if not self.used[v]:
                continue
            paths = [l for anc, l in self.ancestors_paths(v) if anc == a]
            if paths:
                if any(paths):
                    linked = True
                else:
                    locked = True
        return "locked" if locked else ("linked" if linked else "free")


def make_run(W, shape, known_active=None):
    from ovld import Ovld

    if known_active is None:
        known_active = runner.active_known_ids(PID)
    ops = shape["ops"]
    CH = [0, 1, 2, 3]

    def inst(c):
        return W.inst[c] if c != 3 else object()

    def run(ctx):
        hs, LOG, ns = _MS.instantiate(W)
        nodes = []
        led = Ledger()
        trace = []
        ok = True

        def same_key(a, b):
            return POOL[a][0] == POOL[b][0] and POOL[a][1] == POOL[b][1]

        def prio(m):
            return W.prio[POOL[m][1]]

        def reference(v):
            hs2, LOG2, ns2 = _MS.instantiate(W)
            ref = Ovld()
            for m in led.flat(v, same_key):
                ref.register(hs2[m], priority=prio(m))
            return [full_outcome(lambda c=c: ref(inst(c)), LOG2) for c in CH]

        def probe(v):
            nonlocal ok
            if not led.flat(v, same_key):
                return
            got = [full_outcome(lambda c=c: nodes[v](inst(c)), LOG) for c in CH]
            led.used[v] = True
            exp = reference(v)
            trace.append(dict(use=v, got=got, flat_reference=exp))
            if got != exp:
                ok = False

        def modify(a, label, action, apply_ledger):
            nonlocal ok
            st = led.status(a)
            try:
                action()
                raised = False
            except Exception as e:  # noqa: BLE001
                raised = True
                msg = str(e)
            trace.append(dict(op=label, node=a, expected=st, raised=raised))
            if st == "locked":
                if not raised:
                    ok = False
                    trace[-1]["problem"] = "modification of an ancestor of a used function was accepted"
            else:
                if raised:
                    ok = False
                    trace[-1]["problem"] = "modification refused: " + msg[:60]
                else:
                    apply_ledger()
                    if st == "linked":
                        # every used descendant reached through linkback must show the change
                        for v in range(len(nodes)):
                            if led.used[v] and any(anc == a and l for anc, l in led.ancestors_paths(v)):
                                probe(v)

        for op in ops:
            k = op[0]
            if k == "new":
                ov = Ovld()
                nodes.append(ov)
                v = led.new([], False)
                ov.register(hs[op[1]], priority=prio(op[1]))
                led.own[v].append(op[1])
            elif k == "copy":
                _, parent, link = op
                nodes.append(nodes[parent].copy(linkback=link))
                led.new([parent], link)
            elif k == "variant":
                _, parent, m, link = op
                nodes.append(nodes[parent].variant(hs[m], priority=prio(m), linkback=link))
                v = led.new([parent], link)
                led.own[v].append(m)
            elif k == "mixin":
                _, a, other = op
                modify(a, f"add_mixins({other})", lambda: nodes[a].add_mixins(nodes[other]), lambda: led.par[a].append(other))
            elif k == "reg":
                _, a, m = op
                modify(a, f"register(h{m})", lambda: nodes[a].register(hs[m], priority=prio(m)), lambda: led.own[a].append(m))
            elif k == "unreg":
                _, a, m = op
                modify(a, f"unregister(h{m})", lambda: nodes[a].unregister(hs[m]), lambda: led.own[a].remove(m))
            elif k == "use":
                probe(op[1])
        for v in range(len(nodes)):   # finally every node is put to use and must equal its own flat reference
            probe(v)
        uses = sum(1 for t in trace if "use" in t)
        return Verdict(ok, (), dict(ops=ops, trace=trace), [f"uses{min(uses, 6)}"], nontrivial=uses >= 2)

    return run


def gen_history(rng, L):
    """a valid random history (validity = structural only; lock state is the oracle's business)"""
    ops = [("new", rng.randrange(len(POOL)))]
    own = [[ops[0][1]]]
    par = [[]]

    def anc(v):
        s = set()
        for p in par[v]:
            s.add(p)
            s |= anc(p)
        return s

    while len(ops) < L:
        n = len(own)
        r = rng.random()
        if r < 0.10 and n < 4:
            m = rng.randrange(len(POOL))
            ops.append(("new", m)); own.append([m]); par.append([])
        elif r < 0.22 and n < 4:
            p = rng.randrange(n)
            ops.append(("copy", p, rng.random() < 0.5)); own.append([]); par.append([p])
        elif r < 0.40 and n < 4:
            p = rng.randrange(n)
            m = rng.randrange(len(POOL))
            ops.append(("variant", p, m, rng.random() < 0.5)); own.append([m]); par.append([p])
        elif r < 0.48 and n >= 2:
            a, o = rng.sample(range(n), 2)
            # keep the graph a forest with fan-in but without diamonds or cycles
            if o in anc(a) or a in anc(o) or a == o or (anc(a) | {a}) & (anc(o) | {o}) or len(par[a]) >= 2:
                continue
            # no diamonds either: no node at or below `a` may already reach `o` (or share an ancestor with it)
            below = [w for w in range(n) if w == a or a in anc(w)]
            if any((anc(w) | {w}) & (anc(o) | {o}) for w in below):
                continue
            if any(a in anc(v) for v in range(n)) and False:
                continue
            ops.append(("mixin", a, o)); par[a].append(o)
        elif r < 0.68:
            a = rng.randrange(n)
            cand = [m for m in range(len(POOL)) if m not in own[a] and all((POOL[m][0], POOL[m][1]) != (POOL[o][0], POOL[o][1]) for o in own[a])]
            if not cand:
                continue
            m = rng.choice(cand)
            ops.append(("reg", a, m)); own[a].append(m)
        elif r < 0.78:
            a = rng.randrange(n)
            if len(own[a]) < 1:
                continue
            m = rng.choice(own[a])
            ops.append(("unreg", a, m)); own[a].remove(m)
        else:
            ops.append(("use", rng.randrange(n)))
    return [list(o) for o in ops]


def gen_shapes(tier, seed):
    rng = random.Random(seed)
    N = 500 if tier == "quick" else 8000
    shapes = []
    for i in range(N):
        L = rng.choice((4, 5, 6, 7)) if tier == "quick" else rng.choice((5, 6, 7, 8, 9))
        shapes.append(dict(n=3, ops=gen_history(rng, L)))
    # structured family: chains of derivations of depth 2-3, a use at the bottom, then a modification high up
    fam = []
    for l1 in (False, True):
        for l2 in (False, True):
            for (a, b, c) in ((2, 0, 1), (0, 1, 5), (4, 3, 2), (2, 5, 3)):
                base = [["new", a], ["variant", 0, b, l1], ["variant", 1, c, l2], ["use", 2]]
                key = lambda m: (POOL[m][0], POOL[m][1])  # noqa: E731
                extra = [m for m in range(len(POOL)) if key(m) != key(a)]
                extra1 = [m for m in range(len(POOL)) if key(m) != key(b)]
                fam.append(base + [["reg", 0, extra[0]]])
                fam.append(base + [["reg", 0, extra[-1]], ["use", 2]])
                fam.append(base + [["unreg", 0, a]])
                fam.append(base + [["reg", 1, extra1[1 % len(extra1)]]])
                fam.append(base + [["new", extra[0]], ["mixin", 0, 3]])
                for l3 in (False, True):
                    fam.append(base[:3] + [["copy", 2, l3], ["use", 3], ["reg", 0, extra[0]], ["reg", 1, extra1[-1]]])
                # nothing is in use yet: a registration on the middle node, then changes high up, and only then the first use at the bottom
                # (every change must be visible down the chain, linked or not)
                fam.append([["new", a], ["variant", 0, b, l1], ["reg", 1, extra1[0]], ["variant", 1, c, l2], ["reg", 0, extra[0]], ["use", 2]])
                fam.append([["new", a], ["variant", 0, b, l1], ["reg", 1, extra1[-1]], ["copy", 1, l2], ["reg", 0, extra[-1]], ["unreg", 0, a], ["use", 2]])
                fam.append([["new", a], ["copy", 0, l1], ["reg", 1, b], ["variant", 1, c, l2], ["reg", 1, extra1[0]], ["reg", 0, extra[0]], ["use", 2], ["use", 1]])
    shapes = [dict(n=3, ops=h) for h in fam] + shapes
    return shapes, N + len(fam), True


def explore_shape(shape, tier="quick", seed=0, budget_s=30, validate=0):
    return runner.explore_symbolic(make_world, make_run, shape, seed=seed,
                                   deadline=time.time() + budget_s, validate=validate)


def replay(rec):
    return runner.replay_record(sys.modules[__name__], rec)


def main(tier, seed):
    t0 = time.time()
    runner.assert_real_code()
    shapes, total, sampled = gen_shapes(tier, seed)
    kw = dict(tier=tier, seed=seed, budget_s=20 if tier == "quick" else 60, validate=1)
    results = runner.pmap("props.c16", "explore_shape", shapes, kw, chunksize=2)
    return runner.finish(
        PID, tier, seed, t0, results,
        bounds=dict(classes=3, nodes="<= 4 functions", pool="6 candidate methods over K0/K1/K2/object with 2 priority variables (two with identical "
                    "signature for cross-node replacement)", history_length="4-7 operations (quick), 5-9 (thorough), random valid histories (seeded)",
                    operations="new, copy(linkback?), variant(method, linkback?), add_mixins, register, unregister, use; finally every node is used",
                    graphs="forests with fan-in <= 2, no diamonds", probes="K0(), K1(), K2(), object() on each use",
                    priorities="symbolic integers", hierarchy="every partial order (symbolic)"),
        rule="one state = one history x class of (hierarchy, priorities); non-trivial = >= 2 uses compared with their flat reference",
        stubs=["SymMeta classes", "SymInt priorities"],
        dont_care=["graphs with diamonds (two derivation paths with different linkback flags)", "two identical signatures registered on the SAME node (C05)"],
        assumptions=["a node is 'put to use' by calling it; probes therefore happen only at explicit use operations and at the end"],
        shapes_total=total, shapes_sampled=sampled, mod=sys.modules[__name__],
    )
