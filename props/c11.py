"""C11 -- Literal and the built-in value types match exactly their documented values.

Symbolic (CrossHair / z3): the value -- unbounded int, bool, str (len <= 3), tuples / lists / dicts with symbolic
elements, a symbolic index choosing a dictionary key from a small alphabet.
Enumerated: Literal method sets on both sides of the lookup-table threshold (1-6 literal methods, 1-3 values each,
disjoint and overlapping, mixed value types), tuple[...] products, shallow list / Sequence / Collection / Mapping
element types, Regexp / StartsWith / EndsWith / HasKey and their & and | combinations.
Oracle: the documented meaning written out (value in (v1..vn), s.startswith(p), re.search, ...) both against the
dispatch outcome and against isinstance(value, normalised type).
"""

import random
import sys

from lib import xhrun
from xh import gen

PID = "C11"


def lit_ann(vals):
    return "Literal[" + ", ".join(repr(v) for v in vals) + "]"


def lit_bound(vals):
    ts = []
    for v in vals:
        t = type(v).__name__ if v is not None else "type(None)"
        if t not in ts:
            ts.append(t)
    return ts[0] if len(ts) == 1 else "(" + ", ".join(ts) + ")"


def tuple_element_modules():
    """tuple[...] whose ELEMENT types are value-dependent (shared with C01 and C10): the element's own bound is part of its meaning"""
    out = []
    pre = "from ovld.dependent import Equals\n\ndef _pos(x):\n    return x > 0      # (raises TypeError on a str / None, like most real conditions)\n"
    T = "isinstance(v, tuple) and len(v) == 2"
    out.append(("tuple_literal_element", gen.value_module(
        "tuple_literal_element",
        [("tuple[Literal[1], str]", f"{T} and isinstance(v[0], int) and v[0] == 1 and isinstance(v[1], str)"),
         ("tuple[Literal['a'], str]", f"{T} and isinstance(v[0], str) and v[0] == 'a' and isinstance(v[1], str)")],
        "a: int, s: str, k: int", "((a, s), (float(a), s), (a == 1, s), (s, s), (a,))[k % 5]", "len(s) <= 2", prelude=pre,
        extra_static=("tuple", "object"), warm=("(1, 'a')", "(1.0, 'a')", "(True, 'a')", "(2, 'a')", "('a', 'b')", "(1,)"), native_only=True),
        dict(family="value types", annotations=["tuple[Literal[1], str]", "tuple[Literal['a'], str]"])))
    out.append(("tuple_dependent_element", gen.value_module(
        "tuple_dependent_element",
        [("tuple[Dependent[int, _pos], str]", f"{T} and isinstance(v[0], int) and v[0] > 0 and isinstance(v[1], str)"),
         ("tuple[str, str]", f"{T} and isinstance(v[0], str) and isinstance(v[1], str)")],
        "a: int, s: str, k: int", "((a, s), (s, s), (None, s), (a, a))[k % 4]", "len(s) <= 2", prelude=pre,
        extra_static=("tuple", "object"), warm=("(1, 'a')", "(-1, 'a')", "('x', 'y')", "(None, 'y')", "(1, 2)"), native_only=True),
        dict(family="value types", annotations=["tuple[Dependent[int, _pos], str]", "tuple[str, str]"])))
    return out


def literal_mixed_modules():
    """fixed literal sets: values that are == but of different types (bool / int / float / str mixes), in both orders (shared with C01)"""
    out = []
    for i, vals in enumerate(([False, 0], [0, False], [True, 1], [1, True, "a"], [0], [True], [1, "one"], ["a", 2, None])):
        methods = [dict(kind="ann", ann=lit_ann(vals), bound=lit_bound(vals), prio=0,
                        pred="any(type(x) is not float and type(x) is not complex and x == _v for _v in " + repr(tuple(vals)) + ")"),
                   dict(kind="static", bound="int", prio=-1), dict(kind="static", bound="object", prio=-2)]
        checks = [("int", "int", None), ("bool", "bool", None)]
        out.append((f"litmixed_{i}", gen.one_position_module(methods, [0, 1, 2, True, False, "a", "one", 0.0, 1.0, 2.0, 1 + 0j, None], checks),
                    dict(family="Literal with equal values of different types", methods=methods)))
    return out


def literal_union_modules():
    """Literal members INSIDE a union (shared with C01 and C10): each member keeps its own bound -- a value that is == to a literal of another
    member's type, or of no member's type, is not accepted"""
    def lit(v):
        return f"(isinstance(x, {type(v).__name__}) and x == {v!r})"
    cases = [
        ("Literal[1] | Literal[2.5]", "(int, float)", lit(1) + " or " + lit(2.5)),
        ("Literal[2.5] | Literal[1]", "(float, int)", lit(2.5) + " or " + lit(1)),
        ("Literal[-1] | Dependent[float, positive]", "(int, float)", lit(-1) + " or (isinstance(x, float) and x > 0)"),
        ("Dependent[float, positive] | Literal[2]", "(float, int)", lit(2) + " or (isinstance(x, float) and x > 0)"),
        ("Literal[True] | Literal[2]", "(bool, int)", lit(True) + " or " + lit(2)),
        ("Literal['a'] | Literal[0] | Literal[2.0]", "(str, int, float)", lit("a") + " or " + lit(0) + " or " + lit(2.0)),
        ("Literal[1] | str", "(int, str)", lit(1) + " or isinstance(x, str)"),
        ("Literal[1.0] | Literal[2] | Dependent[str, nonempty]", "(float, int, str)", lit(1.0) + " or " + lit(2) + " or (isinstance(x, str) and len(x) > 0)"),
        # (a union as the BOUND of a value-dependent type, in both spellings; the last one next to an object method of the same priority)
        ("Dependent[int | str, truthy]", "(int, str)", "isinstance(x, (int, str)) and bool(x)"),
        ("Dependent[typing.Union[float, str], truthy]", "(float, str)", "isinstance(x, (float, str)) and bool(x)"),
        ("Dependent[typing.Union[int, str], truthy]", "(int, str)", "isinstance(x, (int, str)) and bool(x)", 0),
        ("Dependent[float, positive] & Literal[2.0]", "float", "isinstance(x, float) and x == 2.0"),
    ]
    pre = ("import typing\n\ndef positive(x):\n    assert isinstance(x, float), x\n    return x > 0\n\ndef nonempty(x):\n    assert isinstance(x, str), x\n    return len(x) > 0\n"
           "\ndef truthy(x):\n    assert isinstance(x, (int, float, str)), x\n    return bool(x)\n")
    out = []
    for i, (ann, bound, pred, *oprio) in enumerate(cases):
        methods = [dict(kind="ann", ann=ann, bound=bound, prio=0, pred=pred),
                   dict(kind="static", bound="float", prio=-1), dict(kind="static", bound="object", prio=oprio[0] if oprio else -2)]
        checks = [("int", "int", None), ("bool", "bool", None)]
        out.append((f"litunion_{i}", gen.one_position_module(methods, [0, 1, 2, -1, True, False, "a", "", 0.0, 1.0, 2.0, -1.0, 2.5, 0.5, None], checks, prelude=pre),
                    dict(family="Literal members inside a union", methods=methods)))
    return out


def single_value_literal_module():
    """a single literal value that is not an int / str / float: equal values built at run time are distinct objects (shared with C10)"""
    pre = "from ovld.dependent import StartsWith, EndsWith, Regexp, HasKey, Equals\nfrom fractions import Fraction"
    src = gen.value_module(
        "literal_bytes_fraction",
        [("Literal[b'ab']", "isinstance(v, bytes) and v == b'ab'"),
         ("Dependent[Fraction, Equals(Fraction(1, 2))]", "isinstance(v, Fraction) and v == Fraction(1, 2)"),
         ("Dependent[frozenset, Equals(frozenset({1, 2}))]", "isinstance(v, frozenset) and v == frozenset({1, 2})")],
        "a: int, k: int", "(bytes([97, 98 + a % 3]), Fraction(1 + a % 3, 2 + 2 * (a % 3)), frozenset([1, 2 + a % 3]), b'xy')[k % 4]", None,
        prelude=pre, extra_static=("object",),
        warm=("bytes([97, 98])", "Fraction(2, 4)", "frozenset([2, 1])", "b'zz'", "Fraction(1, 3)"), native_only=True)
    return ("literal_bytes_fraction", src, dict(family="value types", annotations=["Literal[b'ab']", "Equals(Fraction(1, 2))", "Equals(frozenset({1, 2}))"]))


def gen_harnesses(tier, seed):
    rng = random.Random(seed)
    out = []
    # ---- Literal families (one position, reuse the C10 oracle: a Literal is a value-dependent type on type(values))
    N = 40 if tier == "quick" else 320
    for i in range(N):
        nlit = rng.choice((1, 2, 3, 4, 5, 6))
        mixed = rng.random() < 0.3
        pool = list(range(-1, 8)) + (["a", "b", "ab", True, None] if mixed else [])
        if i % 5 == 4:
            # string values with characters that are special for str.format / repr (the values end up in generated source)
            pool = ["{", "{{", "}", "{}", "{x}", "a{", "'", '"', "\\", "%s", "a"]
        methods = []
        used = set()
        overlap = rng.random() < 0.35
        for j in range(nlit):
            k = rng.choice((1, 1, 2, 3))
            cand = pool if overlap else [v for v in pool if repr(v) not in used]
            if len(cand) < k:
                break
            vals = rng.sample(cand, k)
            if any(m.get("vals") == frozenset((type(v).__name__, repr(v)) for v in vals) for m in methods):
                continue       # the same values (in any order) are the same signature: a replacement (C02, C15), not an overlap
            used.update(repr(v) for v in vals)
            methods.append(dict(kind="ann", ann=lit_ann(vals), bound=lit_bound(vals), prio=rng.choice((0, 0, 0, 0, 1)), vals=frozenset((type(v).__name__, repr(v)) for v in vals),
                                pred="any(type(x) is not float and x == _v for _v in " + repr(tuple(vals)) + ")"))
        if rng.random() < 0.5:
            methods.append(dict(kind="dep", bound="int", pred="x > 4", prio=0))     # a non-literal dependent method next to the literals
        if rng.random() < 0.7:
            methods.append(dict(kind="static", bound="int", prio=0))
        methods.append(dict(kind="static", bound="object", prio=-1))
        rng.shuffle(methods)
        checks = [("int", "int", None), ("bool", "bool", None), ("str", "str", "len(x) <= 2")]
        src = gen.one_position_module(methods, list(range(-2, 10)) + [True, False, "a", "b", "ab", "", "{", "{{", "}", "{}", "{x}", "a{", "'", '"', "\\", "%s"], checks)
        out.append((f"c11_lit_{i}", src, dict(family="Literal", methods=[{k: v for k, v in m.items() if k != "vals"} for m in methods])))

    # Literal types at DIFFERENT positions of the methods of one rank: f(x: Literal[a], y: int) next to f(x: int, y: Literal[b])
    for i, (a_, b_, prio) in enumerate(((1, 2, (0, 0, 0)), (0, 0, (0, 0, 0)), (3, 1, (1, 0, 0)), (2, 2, (0, 0, 1)))):
        out.append((f"c11_lit_two_positions_{i}", gen.two_position_module(f"x == {a_}", f"x == {b_}", prio, anns=(f"Literal[{a_}]", f"Literal[{b_}]")),
                    dict(family="Literal types at different positions", values=[a_, b_], prio=list(prio))))
    out.extend((f"c11_{n_}", src_, meta_) for n_, src_, meta_ in literal_mixed_modules())
    out.extend((f"c11_{n_}", src_, meta_) for n_, src_, meta_ in literal_union_modules())

    # ---- built-in value types
    def vm(name, anns, sig, build, pre, **kw):
        out.append((name, gen.value_module(name, anns, sig, build, pre, **kw), dict(family="value types", annotations=[a for a, _ in anns])))

    out.extend((f"c11_{n_}", src_, meta_) for n_, src_, meta_ in tuple_element_modules())
    # a class created at run time whose __name__ is not an identifier (generic containers of libraries name their classes "Vec[int]")
    vm("c11_class_with_odd_name", [("tuple[Odd, int]", "isinstance(v, tuple) and len(v) == 2 and isinstance(v[0], Odd) and isinstance(v[1], int)"),
                                   ("tuple[Dash, int]", "isinstance(v, tuple) and len(v) == 2 and isinstance(v[0], Dash) and isinstance(v[1], int)")],
       "a: int, k: int", "((ODD, a), (DASH, a), (a, a), (ODD,))[k % 4]", None,
       prelude="Odd = type('Vec[int]', (), {})\nDash = type('My-Class', (), {})\nODD, DASH = Odd(), Dash()", extra_static=("tuple", "object"),
       warm=("(ODD, 1)", "(DASH, 1)", "(1, 1)"), native_only=True)
    T = "isinstance(v, tuple)"
    vm("c11_tuple2", [("tuple[int, str]", f"{T} and len(v) == 2 and isinstance(v[0], int) and isinstance(v[1], str)"),
                      ("tuple[int, int]", f"{T} and len(v) == 2 and isinstance(v[0], int) and isinstance(v[1], int)")],
       "a: int, s: str, b: int, k: int", "((a, s), (a, b), (s, a), (a,), (a, b, b))[k % 5]", "len(s) <= 2",
       extra_static=("tuple", "object"), warm=("(1, 'a')", "(1, 2)", "('a', 1)", "(1,)", "(1, 2, 3)"))
    vm("c11_list_int", [("list[int]", "isinstance(v, list) and (not v or isinstance(v[0], int))"),
                        ("list[str]", "isinstance(v, list) and (not v or isinstance(v[0], str))")],
       "a: int, s: str, k: int", "([a], [s], [], [a, s], [s, a], (a,))[k % 6]", "len(s) <= 2",
       extra_static=("list", "object"), warm=("[1]", "['a']", "[]", "(1,)"))
    vm("c11_sequence", [("Sequence[int]", "isinstance(v, Sequence) and (not v or isinstance(v[0], int))")],
       "a: int, s: str, k: int", "([a], (a, s), [s], s, (), [])[k % 6]", "len(s) <= 2", prelude="from typing import Sequence, Collection, Mapping",
       warm=("[1]", "(1, 'a')", "['a']", "'ab'", "()"))
    vm("c11_mapping", [("Mapping[str, int]", "isinstance(v, Mapping) and (not v or (isinstance(next(iter(v)), str) and isinstance(v[next(iter(v))], int)))")],
       "a: int, s: str, k: int", "({s: a}, {a: s}, {}, {s: s}, [s])[k % 5]", "len(s) <= 2", prelude="from typing import Sequence, Collection, Mapping",
       warm=("{'a': 1}", "{1: 'a'}", "{}", "{'a': 'b'}"))
    vm("c11_collection", [("Collection[int]", "isinstance(v, Collection) and (len(v) == 0 or isinstance(next(iter(v)), int))")],
       "a: int, s: str, k: int", "([a], (s,), [], (a, s))[k % 4]", "len(s) <= 2", prelude="from typing import Sequence, Collection, Mapping",
       warm=("[1]", "('a',)", "[]"))
    PRE = "from ovld.dependent import StartsWith, EndsWith, Regexp, HasKey"
    vm("c11_startswith", [("StartsWith['ab']", "isinstance(v, str) and v.startswith('ab')"), ("EndsWith['b']", "isinstance(v, str) and v.endswith('b')")],
       "s: str", "s", "len(s) <= 3", prelude=PRE, extra_static=("str", "object"), warm=("'ab'", "'b'", "'x'"))
    vm("c11_and_or", [("StartsWith['a'] & EndsWith['b']", "isinstance(v, str) and v.startswith('a') and v.endswith('b')"),
                      ("StartsWith['x'] | EndsWith['y']", "isinstance(v, str) and (v.startswith('x') or v.endswith('y'))")],
       "s: str", "s", "len(s) <= 3", prelude=PRE, extra_static=("str", "object"), warm=("'ab'", "'xy'", "'q'"))
    vm("c11_nested_combos", [("(StartsWith['a'] | StartsWith['b']) & EndsWith['z']", "isinstance(v, str) and (v.startswith('a') or v.startswith('b')) and v.endswith('z')"),
                             ("Intersection[Union[StartsWith['x'], EndsWith['y']], StartsWith['xy']]", "isinstance(v, str) and (v.startswith('x') or v.endswith('y')) and v.startswith('xy')")],
       "s: str", "s", "len(s) <= 3", prelude=PRE + "\nfrom ovld.types import Union, Intersection", extra_static=("str", "object"), warm=("'az'", "'bz'", "'xy'", "'q'"))
    vm("c11_tuple_of_tuple", [("tuple[tuple[int, int]]", "isinstance(v, tuple) and len(v) == 1 and isinstance(v[0], tuple) and len(v[0]) == 2 and isinstance(v[0][0], int) and isinstance(v[0][1], int)")],
       "a: int, k: int", "((a,), (a, a))[k % 2]", None, extra_static=("tuple", "object"), warm=("((1, 2),)", "((1, 'a'),)", "(1,)"))
    vm("c11_dep_and_static_in_union", [("(Regexp['a'] & str) | int", "(isinstance(v, str) and _re.search('a', v) is not None) or isinstance(v, int)")],
       "a: int, s: str, k: int", "(a, s)[k % 2]", "len(s) <= 2", prelude=PRE, extra_static=("object",), warm=("3", "'a'", "'b'"))
    vm("c11_subclass_and_dep_in_union", [("(MyS & EndsWith['z']) | StartsWith['a']", "(isinstance(v, MyS) and v.endswith('z')) or (isinstance(v, str) and v.startswith('a'))")],
       "s: str, k: int", "(s, MyS(s))[k % 2]", "len(s) <= 2", prelude=PRE + "\nclass MyS(str):\n    pass", extra_static=("str", "object"),
       warm=("'bz'", "'az'", "'b'", "MyS('bz')", "MyS('b')", "MyS('ab')"))
    vm("c11_equals_object_bound", [("Dependent[object, Equals(1)]", "v == 1"), ("Dependent[object, Equals(2)]", "v == 2"), ("Dependent[object, Equals(3)]", "v == 3"),
                                   ("Dependent[object, Equals('a')]", "v == 'a'"), ("Dependent[object, Equals('b')]", "v == 'b'")],
       "a: int, s: str, k: int", "(a, s, [a], {s: a}, [s, a])[k % 5]", "len(s) <= 2", prelude=PRE + "\nfrom ovld.dependent import Equals", extra_static=("object",),
       warm=("1", "2", "'a'", "[1]", "{'a': 1}"))
    vm("c11_list_and_tuple_ellipsis", [("list[int]", "isinstance(v, list) and (not v or isinstance(v[0], int))"),
                                       ("tuple[int, ...]", "isinstance(v, tuple) and (not v or isinstance(v[0], int))")],
       "a: int, s: str, k: int", "([a], (a,), [s], (s, a), [], (), (a, a))[k % 7]", "len(s) <= 2", extra_static=("object",),
       warm=("[1]", "(1,)", "['a']", "('a', 1)", "[]", "()"))
    vm("c11_tuple_ellipsis", [("tuple[int, ...]", "isinstance(v, tuple) and (not v or isinstance(v[0], int))")],
       "a: int, s: str, k: int", "((a,), (a, a, a), (s, a), (), (a, s))[k % 5]", "len(s) <= 2", extra_static=("tuple", "object"),
       warm=("(1,)", "(1, 2, 3)", "('a', 1)", "()"))
    vm("c11_literal_or_classcheck", [("Literal['a'] | HasMethod['lower']", "hasattr(type(v), 'lower') or (isinstance(v, str) and v == 'a')")],
       "a: int, s: str, k: int", "(a, s)[k % 2]", "len(s) <= 2", prelude=PRE + "\nfrom ovld.types import HasMethod", extra_static=("object",), warm=("'a'", "'b'", "3"))
    vm("c11_regexp", [("Regexp['a+b']", "isinstance(v, str) and _re.search('a+b', v) is not None")],
       "s: str", "s", "len(s) <= 3", prelude=PRE, extra_static=("str", "object"), warm=("'ab'", "'b'", "'xab'"))
    vm("c11_regexp_anchored_alternation", [("Regexp['^a|b']", "isinstance(v, str) and _re.search('^a|b', v) is not None"),
                                           ("Regexp['^xy|y$']", "isinstance(v, str) and _re.search('^xy|y$', v) is not None")],
       "s: str", "s", "len(s) <= 3", prelude=PRE, extra_static=("str", "object"), warm=("'ab'", "'xb'", "'xy'", "'zy'", "'q'"))
    out.append(("c11_literal_bytes_fraction",) + single_value_literal_module()[1:])
    vm("c11_haskey", [("HasKey['a']", "isinstance(v, dict) and 'a' in v"), ("HasKey['a', 'b']", "isinstance(v, dict) and 'a' in v and 'b' in v")],
       "i: int, j: int, x: int", "{('a', 'b', 'c')[i % 3]: x, ('a', 'b', 'c')[j % 3]: x}", None, prelude=PRE, extra_static=("dict", "object"),
       warm=("{'a': 1}", "{'a': 1, 'b': 2}", "{'c': 1}"))
    ENUM = "import enum\nclass Color(enum.IntEnum):\n    RED = 1\n    BLUE = 2\nclass Mode(enum.Enum):\n    A = 'a'\n    B = 'b'\nINF = float('inf')"
    vm("c11_literal_enum", [("Literal[Color.RED]", "isinstance(v, Color) and v == 1"), ("Literal[Mode.A]", "isinstance(v, Mode) and v is Mode.A")],
       "a: int, k: int", "(a, Color.RED, Color.BLUE, Mode.A, Mode.B)[k % 5]", None, prelude=ENUM, extra_static=("int", "object"),
       warm=("1", "2", "Color.RED", "Color.BLUE", "Mode.A", "Mode.B"))
    vm("c11_literal_or", [("Literal[1] | Literal[2]", "isinstance(v, int) and v in (1, 2)"), ("Literal['a'] | Literal[3]", "(isinstance(v, str) and v == 'a') or (isinstance(v, int) and v == 3)")],
       "a: int, s: str, k: int", "(a, s)[k % 2]", "len(s) <= 2", extra_static=("int", "object"), warm=("1", "2", "3", "'a'"))
    return out


def replay(rec):
    from props.c10 import replay as r10

    return r10(rec)


def main(tier, seed):
    hs = gen_harnesses(tier, seed)
    return xhrun.main(
        PID, tier, seed, hs,
        bounds=dict(values="int unbounded, bool, str len <= 3 (2 next to Literals), tuples/lists/dicts of symbolic elements chosen by a symbolic index",
                    literal_sets="%d random Literal method sets: 1-6 literal methods, 1-3 values each, disjoint / overlapping, mixed types, next to "
                                 "int / object / a non-literal dependent method" % sum(1 for h in hs if h[2]["family"] == "Literal"),
                    value_types=[a for h in hs if h[2]["family"] == "value types" for a in h[2]["annotations"]]),
        rule="one state = one check condition confirmed over all paths; non-trivial = reachability twins with a witness input",
        dont_care=["several value types of one method set holding at once: ambiguity or one of them (their mutual order is C12's subject)",
                   "several matching Literals one of which has values of several types (union bounds: recorded C12 Union/Union finding)",
                   "tuple[...] nested inside tuple[...]: the generated check calls isinstance on a metaclass-based type, which CrossHair's "
                   "patched isinstance does not model (counterexamples do not reproduce natively)"],
        assumptions=["warm dispatchers (built natively at import)", "CrossHair confirmations trusted, counterexamples replayed natively"],
        mod=sys.modules[__name__],
    )
