"""C08 -- recurse always re-enters the overloaded function that was actually called.

Symbolic: subclass relation R over the leaf classes, priorities.
Enumerated: graphs of functions related by copy / variant / mixins (depth and fan-in > 1), placement of the
recursive container methods (list via recurse, dict via recurse, tuple via the function's own name) and of leaf
methods (overriding ones included) on the nodes, nested inputs.
Oracle (differential against a flat reference): for node V a fresh underived Ovld carrying V's flattened method
list, where `recurse` trivially means "this function"; results and leaf-entry logs must be equal for V, and every
node must still equal its own flat reference after the others have been used.
"""

import random
import sys
import time

import z3

from lib import runner
from props.c16 import Ledger
from symx.engine import Verdict
from symx.kit import MethodSet, full_outcome
from symx.world import World

PID = "C08"
# (annotation, priority variable, body)
POOL = [
    (("raw", "list"), 0, "return [recurse(a) for a in x]"),
    (("raw", "tuple"), 0, "return tuple(F(a) for a in x)"),          # names the (root) function itself
    (("raw", "dict"), 0, "return {k: recurse(v) for k, v in x.items()}"),
    (("K", 0), 0, "return ('leaf', 3)"),
    (("K", 1), 0, "return ('leaf', 4)"),
    (("obj",), 1, "return ('leaf', 5)"),
    (("K", 0), 0, "return ('leaf', 6)"),                               # same signature as 3: overrides it in a child
    (("K", 2), 0, "return ('leaf', 7, call_next(x))"),
    (("raw", "list"), 0, "return ['v'] + [recurse(a) for a in x]"),     # overriding container (same signature as 0)
    (("raw", "dict"), 0, "return {k: (tag, rec(v)) for k, v in x.items()}", "rec = recurse\ntag = 'c'"),  # recurse reached through a closure cell
    (("type", ("K", 0)), 0, "return ('typeleaf', 10)"),                 # a leaf on type[K0]: the position becomes "complex"
    # the function's own name at the top level of the body and recurse only inside a nested scope (a generator expression)
    (("raw", "tuple"), 0, "first = F(x[0]) if x else None\nreturn ('t', first) + tuple(recurse(a) for a in x[1:])"),
    # recurse naming, by keyword, a positional parameter that only OTHER methods declare (the leaf below)
    (("raw", "list"), 0, "return ['w'] + [recurse(a, y=7) for a in x]"),
    (("K", 1), 0, "return ('leaf', 13, y)", None, [("y", ("obj",), True)]),
    # a lambda whose own parameter is called recurse, BEFORE the call that must reach this very function (and the default-binding idiom)
    (("raw", "list"), 0, "pick = lambda recurse: recurse\ng = lambda v, recurse=recurse: recurse(v)\nreturn ['s', pick(1)] + [g(a) for a in x[:1]] + [recurse(a) for a in x[1:]]"),
]


def key(m):
    return (POOL[m][0], POOL[m][1], len(POOL[m]) > 4)      # (a further positional parameter makes it another signature)


def make_world(ex, shape, real):
    W = World(ex, 3, nprio=2, real=real)
    ex.s.add(W.P[0] != W.P[1])
    return W


_MS = MethodSet([dict(pos=[("x", e[0], False)] + (e[4] if len(e) > 4 else []), body=e[2], closure=(e[3] if len(e) > 3 else None)) for e in POOL])


_SELF_MS = MethodSet([
    dict(pos=[("x", ("raw", "list"), False)], body="return [recurse(a) for a in x]", selfarg=True),
    dict(pos=[("x", ("type", ("K", 0)), False)], body="return ('typeleaf', 1)", selfarg=True),
    dict(pos=[("x", ("K", 0), False)], body="return ('leaf', 2)", selfarg=True),
    dict(pos=[("x", ("obj",), False)], body="return ('leaf', 3)", selfarg=True),
    dict(pos=[("x", ("raw", "tuple"), False)], body="return tuple(call_next(a) if False else recurse(a) for a in x)", selfarg=True),
    dict(pos=[("x", ("raw", "list"), False)], body="return list(map(recurse, x))", selfarg=True),          # recurse as a value (not inlined)
    dict(pos=[("x", ("K", 0), False)], body="return ('leaf', 6)", selfarg=True),                           # a subclass's own leaf
])


def make_run_self(W, shape):
    """methods that take self (an Ovld used as a descriptor on a plain class, optionally through a copy / a variant): recurse on an element is
    the bound call on that element -- for instances AND for classes (a type[...] leaf makes the position type-aware)"""
    from ovld import Ovld

    def run(ctx):
        hs, LOG, ns = _SELF_MS.instantiate(W)
        ov = Ovld()
        for m in shape["methods"]:
            ov.register(hs[m], priority=(-1 if m == 3 else 0))
        if shape.get("derive") == "copy":
            ov = ov.copy()
        elif shape.get("derive") == "variant":
            ov = ov.variant(hs[3], priority=-1) if 3 not in shape["methods"] else ov.copy(linkback=True)
        Holder = type("Holder", (), {"f": ov})
        h = Holder()
        ok, trace = True, []
        for name, e in (("K0", W.K[0]), ("K1", W.K[1]), ("K0()", W.inst[0]), ("object()", object())):
            direct = full_outcome(lambda: h.f(e), LOG)
            for wrap_name, wrap, fmt in (("[e]", lambda v: [v], "[{}]"), ("(e,)", lambda v: (v,), "({},)")):
                if wrap_name == "(e,)" and 4 not in shape["methods"]:
                    continue
                nested = full_outcome(lambda: h.f(wrap(e)), LOG)
                entered = nested[0][:1] in ([0], [4])
                same = (nested[1] == ["ret", fmt.format(direct[1][1])]) if direct[1][0] == "ret" else (nested[1][0] != "ret")
                trace.append(dict(element=name, container=wrap_name, direct=direct, nested=nested))
                if entered and not same:
                    ok = False
                if not all(en[3] is h for en in LOG):
                    ok = False
        # the function of a BASE class called on an instance of a subclass that carries its own function under the same name: recurse inside
        # the base's methods is the base's function (the one through which the call was dispatched), bound to that instance
        ov2 = ov.copy()
        ov2.register(hs[6], priority=0)
        Sub = type("Sub", (Holder,), {"f": ov2})
        sub = Sub()
        for name, e in (("K0()", W.inst[0]), ("object()", object())):
            direct = full_outcome(lambda: Holder.f(sub, e), LOG)
            nested = full_outcome(lambda: Holder.f(sub, [e]), LOG)
            if nested[0][:1] in ([0], [5]):
                same = (nested[1] == ["ret", "[" + direct[1][1] + "]"]) if direct[1][0] == "ret" else (nested[1][0] != "ret")
                trace.append(dict(element=name, container="[e], through the base class's function on a subclass instance", direct=direct, nested=nested))
                if not same or not all(en[3] is sub for en in LOG):
                    ok = False
        return Verdict(ok, (), dict(family="methods with self", methods=shape["methods"], derive=shape.get("derive"), trace=trace), ["self"], nontrivial=True)

    return run


def make_run(W, shape, known_active=None):
    from ovld import Ovld

    if shape.get("selffam"):
        return make_run_self(W, shape)
    ops = shape["ops"]

    def inputs():
        a, b, c, o = W.inst[0], W.inst[1], W.inst[2], object()
        return [("a", a), ("[a,b]", [a, b]), ("[a,[c,o]]", [a, [c, o]]), ("(a,[b])", (a, [b])), ("{k:[a,(c,)]}", {"k": [a, (c,)]}),
                ("[{k:b},(o,)]", [{"k": b}, (o,)])]

    def run(ctx):
        hs, LOG, ns = _MS.instantiate(W)
        nodes = []
        led = Ledger()
        trace = []
        ok = True

        def same_key(a, b):
            return key(a) == key(b)

        def prio(m):
            return W.prio[POOL[m][1]]

        refs = {}

        def reference(v, inp):
            k_ = (v, tuple(led.flat(v, same_key)), tuple(led.flat(0, same_key)))
            if k_ in refs:
                ref, LOG2 = refs[k_]
                return full_outcome(lambda: ref(inp), LOG2)
            hs2, LOG2, ns2 = _MS.instantiate(W)
            root = Ovld()
            for m in led.flat(0, same_key):
                root.register(hs2[m], priority=prio(m))
            ns2["F"] = root.dispatch
            if v == 0:
                ref = root
            else:
                ref = Ovld()
                for m in led.flat(v, same_key):
                    ref.register(hs2[m], priority=prio(m))
            refs[k_] = (ref, LOG2)
            return full_outcome(lambda: ref(inp), LOG2)

        def probe(v):
            nonlocal ok
            if not led.flat(v, same_key):
                return
            for name, inp in inputs():
                got = full_outcome(lambda: nodes[v](inp), LOG)
                exp = reference(v, inp)
                trace.append(dict(node=v, input=name, got=got, flat_reference=exp))
                if got != exp or got[1][0] in ("EXC", "LOOP"):
                    ok = False   # (an error other than the two dispatch errors is never a legitimate outcome here)

        for op in ops:
            k = op[0]
            if k == "new":
                ov = Ovld()
                nodes.append(ov)
                v = led.new([], False)
                for m in op[1]:
                    ov.register(hs[m], priority=prio(m))
                    led.own[v].append(m)
                if v == 0:
                    ns["F"] = ov.dispatch
            elif k == "copy":
                nodes.append(nodes[op[1]].copy(linkback=op[2]))
                led.new([op[1]], op[2])
            elif k == "variant":
                _, parent, m, link = op
                nodes.append(nodes[parent].variant(hs[m], priority=prio(m), linkback=link))
                v = led.new([parent], link)
                led.own[v].append(m)
            elif k == "mixin":
                _, a, other = op
                nodes[a].add_mixins(nodes[other])
                led.par[a].append(other)
            elif k == "reg":
                _, a, m = op
                nodes[a].register(hs[m], priority=prio(m))
                led.own[a].append(m)
            elif k == "use":
                probe(op[1])
            elif k == "latereg":
                # the node has been used and nothing derives from it: registering is allowed and every later call,
                # including recursion from its inherited methods, must see the new method
                _, a, m = op
                probe(a)
                nodes[a].register(hs[m], priority=prio(m))
                led.own[a].append(m)
                refs.clear()
                probe(a)
        # a law that does not go through the flat reference: where the plain list container (method 0) is the list method of a
        # node, recursion over a list is element-wise -- also for CLASS objects (type[...] leaves)
        for v in range(len(nodes)):
            fl = led.flat(v, same_key)
            if 0 in fl and 8 not in fl and 12 not in fl:
                for name, e in (("K0", W.K[0]), ("K1", W.K[1]), ("a", W.inst[0])):
                    direct = full_outcome(lambda: nodes[v](e), LOG)
                    nested = full_outcome(lambda: nodes[v]([e]), LOG)
                    if nested[0][:1] == [0] and direct[1][0] == "ret" and nested[1] != ["ret", "[" + direct[1][1] + "]"]:
                        ok = False
                        trace.append(dict(node=v, input=f"[{name}]", got=nested, flat_reference=["element-wise law", direct]))
        # the same law for a recurse call that names a positional parameter by keyword: recurse(a, y=7) inside the walker is nodes[v](a, y=7)
        for v in range(len(nodes)):
            fl = led.flat(v, same_key)
            if 12 in fl and 0 not in fl and 8 not in fl:
                for name, e in (("b", W.inst[1]), ("a", W.inst[0])):
                    direct = full_outcome(lambda: nodes[v](e, y=7), LOG)
                    nested = full_outcome(lambda: nodes[v]([e]), LOG)
                    if nested[0][:1] != [12]:
                        continue
                    same = (nested[1] == ["ret", "['w', " + direct[1][1] + "]"]) if direct[1][0] == "ret" else (nested[1][0] != "ret")      # (a rejection either way; its wording depends on the route)
                    if not same:
                        ok = False
                        trace.append(dict(node=v, input=f"[{name}]", got=nested, flat_reference=["keyword law: recurse(a, y=7) == f(a, y=7)", direct]))
        for v in reversed(range(len(nodes))):   # children first, then every ancestor must still be itself
            probe(v)
        for v in range(len(nodes)):
            probe(v)
        rec = sum(1 for t in trace if len(t["got"][0]) >= 2)
        return Verdict(ok, (), dict(ops=ops, trace=trace[:40]), [f"nodes{len(nodes)}"], nontrivial=rec >= 1)

    return run


def gen_graph(rng, L):
    base = rng.sample([0, 1, rng.choice((2, 9))], rng.choice((1, 2, 3))) + rng.sample([3, 4, 5, 7], rng.choice((1, 2)))
    ops = [("new", base)]
    own = [list(base)]
    par = [[]]

    def anc(v):
        s = set()
        for p in par[v]:
            s.add(p)
            s |= anc(p)
        return s

    tries = 0
    while len(ops) < L and tries < 100:
        tries += 1
        n = len(own)
        r = rng.random()
        if r < 0.12 and n < 5:
            ms = rng.sample(range(len(POOL)), rng.choice((1, 2)))
            if len({key(m) for m in ms}) < len(ms):
                continue
            ops.append(("new", ms)); own.append(list(ms)); par.append([])
        elif r < 0.25 and n < 5:
            p = rng.randrange(n)
            ops.append(("copy", p, rng.random() < 0.3)); own.append([]); par.append([p])
        elif r < 0.60 and n < 5:
            p = rng.randrange(n)
            m = rng.randrange(len(POOL))
            ops.append(("variant", p, m, rng.random() < 0.3)); own.append([m]); par.append([p])
        elif r < 0.75 and n >= 2:
            a, o = rng.sample(range(n), 2)
            if o in anc(a) or a in anc(o) or (anc(a) | {a}) & (anc(o) | {o}) or len(par[a]) >= 2:
                continue
            below = [w for w in range(n) if w == a or a in anc(w)]
            if any((anc(w) | {w}) & (anc(o) | {o}) for w in below):
                continue
            ops.append(("mixin", a, o)); par[a].append(o)
        else:
            a = rng.randrange(n)
            cand = [m for m in range(len(POOL)) if all(key(m) != key(o) for o in own[a])]
            if not cand:
                continue
            m = rng.choice(cand)
            ops.append(("reg", a, m)); own[a].append(m)
    # half of the histories end with a registration on an already used leaf node (one nobody derives from)
    if rng.random() < 0.5:
        n = len(own)
        leaves = [v for v in range(n) if not any(v in par[w] for w in range(n))]
        v = rng.choice(leaves)
        cand = [m for m in (3, 4, 5, 6, 7, 10) if all(key(m) != key(o) for o in own[v])]
        if cand:
            ops.append(("latereg", v, rng.choice(cand)))
    return [list(o) for o in ops]


def gen_shapes(tier, seed):
    rng = random.Random(seed)
    fam = []
    # documented pattern: generic walker + variants overriding leaves; mixins providing containers
    fam.append([["new", [0, 1, 2]], ["variant", 0, 5, False], ["variant", 0, 3, False], ["variant", 1, 4, False], ["variant", 3, 6, False]])
    fam.append([["new", [0, 5]], ["new", [2]], ["new", [1, 3]], ["copy", 0, False], ["mixin", 3, 1], ["reg", 3, 4], ["variant", 3, 7, False]])
    fam.append([["new", [0, 3, 5]], ["variant", 0, 8, False], ["variant", 1, 6, False], ["copy", 2, False], ["reg", 3, 7]])
    fam.append([["new", [0, 1, 5]], ["variant", 0, 4, True], ["variant", 1, 7, True], ["variant", 0, 3, False]])
    fam.append([["new", [0, 9, 5]], ["variant", 0, 3, False], ["variant", 1, 4, False]])
    fam.append([["new", [0, 2, 5]], ["variant", 0, 3, False], ["latereg", 1, 4]])
    fam.append([["new", [0, 5]], ["variant", 0, 10, False], ["variant", 1, 3, False]])
    fam.append([["new", [0, 3, 5]], ["copy", 0, False], ["reg", 1, 10]])
    fam.append([["new", [0, 1, 5]], ["copy", 0, True], ["latereg", 1, 3], ["latereg", 1, 7]])
    # recurse naming a positional parameter of other methods by keyword (list walker 12, leaf 13 with the optional parameter y)
    fam.append([["new", [12, 13, 5]], ["variant", 0, 3, False], ["copy", 0, False]])
    fam.append([["new", [12, 5]], ["variant", 0, 13, False], ["variant", 1, 4, False]])
    fam.append([["new", [13, 5]], ["new", [12]], ["copy", 0, False], ["mixin", 2, 1]])
    fam.append([["new", [11, 3, 5]], ["variant", 0, 4, False]])
    N = 420 if tier == "quick" else 8000
    shapes = [dict(n=3, ops=h) for h in fam]
    shapes += [dict(n=3, selffam=True, methods=ms_, derive=dv, ops=[]) for ms_ in ([0, 1, 2, 3], [0, 1, 3], [0, 2, 3], [0, 4, 1, 2, 3], [0, 1, 2], [5, 2, 3], [5, 1, 2, 3])
               for dv in (None, "copy", "variant")]
    for _ in range(N):
        shapes.append(dict(n=3, ops=gen_graph(rng, rng.choice((3, 4, 5, 6)))))
    return shapes, len(shapes), True


def explore_shape(shape, tier="quick", seed=0, budget_s=30, validate=0):
    return runner.explore_symbolic(make_world, make_run, shape, seed=seed,
                                   deadline=time.time() + budget_s, validate=validate)


def replay(rec):
    return runner.replay_record(sys.modules[__name__], rec)


def main(tier, seed):
    t0 = time.time()
    runner.assert_real_code()
    shapes, total, sampled = gen_shapes(tier, seed)
    kw = dict(tier=tier, seed=seed, budget_s=20 if tier == "quick" else 60, validate=1)
    results = runner.pmap("props.c08", "explore_shape", shapes, kw, chunksize=2)
    return runner.finish(
        PID, tier, seed, t0, results,
        bounds=dict(classes=3, nodes="<= 5 functions", pool="15 methods (a leaf on type[K0]; one defined in a factory, reaching recurse through a closure cell): list/dict containers via recurse, tuple container naming the root function, an "
                    "overriding list container, leaves on K0/K1/K2/object (one overriding, one using call_next)",
                    graphs="random build histories of 3-6 operations (new / copy / variant / add_mixins / register), half of them followed by a registration on an already used leaf node, + 7 documented patterns; forests "
                           "with fan-in <= 2, depth <= 4", inputs="6 nested inputs (lists, tuples, dicts to depth 3 over instances of the 3 classes and object())",
                    priorities="symbolic integers", hierarchy="every partial order (symbolic)"),
        rule="one state = one graph x class of (hierarchy, priorities); non-trivial = some probe entered >= 2 methods",
        stubs=["SymMeta classes", "SymInt priorities"],
        dont_care=["an inherited method that names its original function keeps calling that function (the statement covers 'for that function')"],
        assumptions=["the reference binds the name F to the flat reference of the root function"],
        shapes_total=total, shapes_sampled=sampled, mod=sys.modules[__name__],
    )
