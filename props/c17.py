"""C17 -- overloaded methods in classes merge per class and inherit without leaking.

Symbolic: subclass relation R over the argument classes.
Enumerated: user-class hierarchies written as source (OvldBase / OvldMC roots, subclasses, a mixin base without the
metaclass, two bases), assignment of same-named method definitions and extend_super markers to the class bodies,
bodies using recurse / call_next; calls on instances of every class.
Oracle: per-class reference method table computed by the generator (own definitions; with extend_super those of all
bases first, own last, identical signatures replaced) -> a flat overloaded function built from module-level twins of
the methods; chain of entered methods, result / error kind and the identity of self must agree; every class is
probed after all classes have been defined.
"""

import itertools
import linecache
import random
import sys
import time

import z3

from lib import runner
from symx.engine import Verdict
from symx.kit import full_outcome
from symx.world import World

PID = "C17"
TYPES = ["K0", "K1", "K2", "object", "list"]
_SRC = {}


def make_world(ex, shape, real):
    return World(ex, 3, nprio=0, real=real)


def body_of(m, t, kind):
    if t == "list":
        # recurse called directly / passed as a value / called with star-arguments: it stands for the bound method in all three
        return {"ret": "return [recurse(a) for a in x]", "next": "return list(map(recurse, x))"}.get(kind, "return [recurse(*[a]) for a in x]")
    if kind == "next":
        return f"return ({m}, call_next(x))"
    return f"return {m}"


def gen_source(shape):
    """returns (source, tables) ; tables[class index] = ordered list of method ids (reference table)"""
    classes = shape["classes"]
    mname = shape.get("mname", "f")          # the overloaded method may be a special method (__call__)
    lines = ["from ovld import OvldBase, OvldMC, extend_super, recurse, call_next, ovld", ""]
    mid = 0
    tables = {}
    attrs = {}
    indict = {}
    defs = {}     # method id -> (type, kind)
    for ci, c in enumerate(classes):
        bases = [f"C{b}" for b in c["bases"]]
        if c["root"] == "base":
            hdr = f"class C{ci}(OvldBase):"
        elif c["root"] == "mc":
            hdr = f"class C{ci}(metaclass=OvldMC):"
        elif c["root"] == "plain":
            hdr = f"class C{ci}:"
        else:
            hdr = f"class C{ci}({', '.join(bases)}):"
        lines.append(hdr)
        own = []
        for di, (t, kind) in enumerate(c["defs"]):
            if c.get("extend") and di == min(c.get("extend_at", 0), len(c["defs"]) - 1):
                lines.append("    @extend_super")          # (any one of the same-named definitions may carry the marker)
            elif c.get("deco_at") == di:
                lines.append("    @ovld(priority=0)")     # an explicitly decorated definition among plain ones
            lines.append(f"    def {mname}(self, x: {t}):")
            lines.append(f"        LOG.append(({mid}, (x,), {{}}, self))")
            lines.append(f"        {body_of(mid, t, kind)}")
            defs[mid] = (t, kind)
            own.append(mid)
            mid += 1
        if not c["defs"]:
            lines.append("    pass")
        lines.append("")

        # reference: what the attribute f of this class is -- kind plain | ovld; for an overloaded f its table as ovld keeps it, keyed by
        # (parameter type, tiebreak): a definition registered INTO a function that already holds the same signature of its own pushes the older
        # one down (tiebreak -1, still reachable through call_next), while a definition with the signature of an inherited (mixed-in) method
        # takes its place; marker = still carries extend_super; indict = in the class's own namespace
        def view(at_):
            return {(defs[at_["plain"]][0], 0): at_["plain"]} if at_["kind"] == "plain" else dict(at_["tabd"])

        def reg(cur_, m_):
            def push(key, val):
                if key in cur_["own"] and key in cur_["tabd"]:
                    push((key[0], key[1] - 1), cur_["tabd"][key])
                cur_["tabd"][key] = val
                cur_["own"].add(key)
            push((defs[m_][0], 0), m_)

        marked = bool(c.get("extend")) and bool(own)
        ext_i = min(c.get("extend_at", 0), len(own) - 1) if marked else None
        deco_i = c.get("deco_at") if not marked else None
        cur = None
        if c["root"] == "plain":
            if own:
                cur = dict(kind="ovld", tabd={(defs[own[-1]][0], 0): own[-1]}, own=set(), marker=True) if marked else dict(kind="plain", plain=own[-1], marker=False)
        else:
            vals = [attrs.get(b) for b in c["bases"]] if c["root"] == "sub" else []
            ovlds = [v for v in vals if v is not None and v["kind"] == "ovld"]
            later_marked = [v for v in ovlds[1:] if v["marker"]]
            plains = [v for v in vals if v is not None and v["kind"] == "plain"]
            # when the class is prepared: a later base whose f still carries extend_super (a mixin class) is merged into the first overloaded f;
            # so is a plain (single-definition) f of another base when the first overloaded f itself carries the marker
            if later_marked or (ovlds and ovlds[0]["marker"] and plains):
                cur = dict(kind="ovld", tabd=dict(ovlds[0]["tabd"]), own=set(), marker=False)
                for v in later_marked:
                    cur["tabd"].update(v["tabd"])
                for v in plains:
                    reg(cur, v["plain"])
            for di, m in enumerate(own):
                t_ = defs[m][0]
                if di == ext_i:
                    mixins = [view(v) for v in vals if v is not None] + ([view(cur)] if cur is not None else [])
                    if mixins:
                        tabd = {}
                        for v in mixins:
                            tabd.update(v)
                        tabd[(t_, 0)] = m
                        cur = dict(kind="ovld", tabd=tabd, own=set(), marker=False)
                    else:
                        cur = dict(kind="ovld", tabd={(t_, 0): m}, own={(t_, 0)}, marker=True)   # nothing to extend: the marker stays
                elif di == deco_i:
                    if cur is None:
                        cur = dict(kind="ovld", tabd={(t_, 0): m}, own={(t_, 0)}, marker=False)
                    elif cur["kind"] == "plain":
                        p_ = cur["plain"]
                        cur = dict(kind="ovld", tabd={(defs[p_][0], 0): p_}, own={(defs[p_][0], 0)}, marker=False)
                        reg(cur, m)
                    else:
                        reg(cur, m)
                else:
                    if cur is None:
                        cur = dict(kind="plain", plain=m, marker=False)
                    elif cur["kind"] == "plain":
                        p_ = cur["plain"]
                        cur = dict(kind="ovld", tabd={(defs[p_][0], 0): p_}, own={(defs[p_][0], 0)}, marker=False)
                        reg(cur, m)
                    else:
                        reg(cur, m)
        at = cur
        indict[ci] = at is not None
        if at is None:
            # plain attribute inheritance: the first class in MRO order that has f in its own namespace
            for b in mro(ci, classes):
                if b != ci and indict.get(b):
                    at = attrs[b]
                    break
        attrs[ci] = at
        tables[ci] = None if at is None else (("plain", at["plain"]) if at["kind"] == "plain" else dict(at["tabd"]))
    for m, (t, kind) in defs.items():
        lines.append(f"def r{m}(self, x: {t}):")
        lines.append(f"    LOG.append(({m}, (x,), {{}}, self))")
        lines.append(f"    {body_of(m, t, kind)}")
        lines.append("")
    return "\n".join(lines) + "\n", tables, defs


def mro(ci, classes):
    """C3 linearisation of the generated hierarchy (indexes)"""
    def lin(i):
        bases = classes[i]["bases"] if classes[i]["root"] == "sub" else []
        seqs = [lin(b) for b in bases] + [list(bases)]
        out = [i]
        while any(seqs):
            for s in seqs:
                if not s:
                    continue
                h = s[0]
                if not any(h in t[1:] for t in seqs):
                    break
            else:
                raise TypeError("no MRO")
            out.append(h)
            for s in seqs:
                if s and s[0] == h:
                    del s[0]
        return out
    return lin(ci)


def make_run(W, shape, known_active=None):
    from ovld import Ovld

    key = repr((shape["classes"], shape.get("mname")))
    mname = shape.get("mname", "f")
    if key not in _SRC:
        src, tables, defs = gen_source(shape)
        fn = f"<symx-c17-{len(_SRC)}>"
        linecache.cache[fn] = (len(src), None, src.splitlines(True), fn)
        _SRC[key] = (compile(src, fn, "exec"), tables, defs, src)
    code, tables, defs, src = _SRC[key]
    nclasses = len(shape["classes"])

    def run(ctx):
        LOG = []
        ns = {"LOG": LOG, "K0": W.K[0], "K1": W.K[1], "K2": W.K[2], "__name__": "symx_c17"}
        try:
            exec(code, ns)
        except Exception as e:  # noqa: BLE001
            return Verdict(False, (), dict(source=src, definition_error=f"{type(e).__name__}: {e}"[:200]), ["deferr"])
        inputs = [("K0()", W.inst[0]), ("K1()", W.inst[1]), ("K2()", W.inst[2]), ("object()", object()),
                  ("[K0(),[K1()]]", [W.inst[0], [W.inst[1]]])]
        trace = []
        ok = True
        refs = {}
        for ci in range(nclasses):
            tab = tables[ci]
            if tab is None:
                continue
            inst = ns[f"C{ci}"]()
            k_ = tab if isinstance(tab, tuple) else tuple(sorted(tab.items(), key=repr))
            if k_ not in refs:
                if isinstance(tab, tuple):
                    refs[k_] = type("Holder", (), {mname: ns[f"r{tab[1]}"]})
                else:
                    # a flat function with the same definitions; per signature the older (pushed-down) ones are registered first
                    ref = Ovld()
                    for (t_, tb_), m in sorted(tab.items(), key=lambda kv: (kv[0][0], kv[0][1])):
                        ref.register(ns[f"r{m}"])
                    refs[k_] = type("Holder", (), {mname: ref})
            holder = refs[k_]()
            for name, a in inputs:
                got = full_outcome((lambda: inst(a)) if mname == "__call__" else (lambda: inst.f(a)), LOG)
                selfok = all(e[3] is inst for e in LOG)
                exp = full_outcome((lambda: holder(a)) if mname == "__call__" else (lambda: holder.f(a)), LOG)
                trace.append(dict(cls=f"C{ci}", arg=name, got=got, reference=exp, self_is_instance=selfok))
                if got != exp or not selfok or got[1][0] in ("EXC", "LOOP"):
                    ok = False
        nontriv = sum(1 for t in trace if len(t["got"][0]) >= 1)
        return Verdict(ok, (), dict(source=src if not ok else None, tables={f"C{k}": (v if not isinstance(v, dict) else [[list(kk), vv] for kk, vv in sorted(v.items(), key=repr)]) for k, v in tables.items()}, trace=trace),
                       [f"classes{nclasses}"], nontrivial=nontriv >= 2)

    return run


def gen_shapes(tier, seed):
    rng = random.Random(seed)
    N = 900 if tier == "quick" else 10000
    shapes = []

    def defs(k, may_delegate=True):
        ts = rng.sample(TYPES if may_delegate else TYPES[:4], k)
        return [[t, rng.choice(("ret", "ret", "next", "star") if t == "list" else ("ret", "ret", "next")) if may_delegate else "ret"] for t in ts]

    while len(shapes) < N:
        k0 = rng.choice((1, 2, 3))
        ext0 = rng.random() < 0.25                 # extend_super with nothing to extend: the marker stays (a class meant to be mixed in)
        deco0 = rng.randrange(k0) if (not ext0 and rng.random() < 0.2) else None
        classes = [dict(root=rng.choice(("base", "mc")), bases=[], defs=defs(k0, k0 > 1 or ext0 or deco0 is not None), extend=ext0,
                        extend_at=rng.randrange(k0), deco_at=deco0)]
        ncls = rng.choice((2, 3, 4, 5))
        plain_idx = None
        while len(classes) < ncls:
            i = len(classes)
            r = rng.random()
            if r < 0.15 and plain_idx is None:
                extp = rng.random() < 0.5
                classes.append(dict(root="plain", bases=[], defs=defs(1, extp), extend=extp))
                plain_idx = i
                continue
            if r > 0.93 and not any(c_["root"] == "base" and not c_["defs"] for c_ in classes):
                # a second root that does not define the method at all (a base that merely takes part in the class)
                classes.append(dict(root="base", bases=[], defs=[], extend=False))
                continue
            cands = [j for j in range(i) if classes[j]["root"] != "plain"]
            b = [rng.choice(cands)]
            if rng.random() < 0.4:
                others = [j for j in range(i) if j not in b]
                if others:
                    b.append(rng.choice(others))
                    others = [j for j in range(i) if j not in b]
                    if others and rng.random() < 0.35:
                        b.append(rng.choice(others))          # three bases
            nd = rng.choice((0, 1, 1, 2))
            ext = nd > 0 and rng.random() < 0.7
            deco = rng.randrange(nd) if (nd and not ext and rng.random() < 0.25) else None
            classes.append(dict(root="sub", bases=b, defs=defs(nd, ext or nd > 1 or deco is not None), extend=ext, extend_at=rng.randrange(nd) if nd else 0,
                                deco_at=deco))
        # the hierarchy must have a valid MRO and OvldMC bases must come first when mixed with a plain class
        try:
            for i in range(len(classes)):
                mro(i, classes)
        except TypeError:
            continue
        shapes.append(dict(n=3, classes=classes, mname="__call__" if len(shapes) % 5 == 4 else "f"))
    return shapes, N, True


def explore_shape(shape, tier="quick", seed=0, budget_s=30, validate=0):
    return runner.explore_symbolic(make_world, make_run, shape, seed=seed,
                                   deadline=time.time() + budget_s, validate=validate)


def replay(rec):
    return runner.replay_record(sys.modules[__name__], rec)


def main(tier, seed):
    t0 = time.time()
    runner.assert_real_code()
    shapes, total, sampled = gen_shapes(tier, seed)
    kw = dict(tier=tier, seed=seed, budget_s=20 if tier == "quick" else 60, validate=1)
    results = runner.pmap("props.c17", "explore_shape", shapes, kw, chunksize=2)
    return runner.finish(
        PID, tier, seed, t0, results,
        bounds=dict(argument_classes=3, user_classes="2-5 per program (OvldBase or metaclass=OvldMC root, subclasses with 1-3 bases, at most one plain "
                    "mixin class without the metaclass)", method_name="f, or the special method __call__ (every 5th program)", definitions="0-3 same-named definitions per class body over K0/K1/K2/object/list (one of them possibly decorated @ovld(priority=0)), "
                    "extend_super on any one definition of 70% of the subclasses that define the method, of 25% of the roots and 50% of the plain mixin "
                    "classes (nothing to extend: the marker survives and a later class listing it as a non-first base merges it)",
                    bodies="return | call_next(x) | [recurse(a) for a in x] | list(map(recurse, x)) | [recurse(*[a]) for a in x]", probes="every class x {K0(), K1(), K2(), object(), nested list}",
                    programs="random sample (seeded)", hierarchy="every partial order on the argument classes (symbolic)"),
        rule="one state = one program x class of argument hierarchies; non-trivial = >= 2 probes entered a method",
        stubs=["SymMeta argument classes"],
        dont_care=["priorities other than 0 inside class bodies"],
        assumptions=["the program quantifier is enumerated (sampled); the reference table is computed by the generator from the documented rule"],
        shapes_total=total, shapes_sampled=sampled, mod=sys.modules[__name__],
    )
