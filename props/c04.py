"""C04 -- caching is invisible: a call's outcome never depends on earlier calls.

Symbolic: subclass relation R, priorities, the argument class of every call of the history (finite selectors),
the value-dependent flag of every argument.  Enumerated: method sets (plain / delegating / dependent).
Oracle (differential): call i of the history on the shared function == the same call on a freshly built function,
both under the same model.
"""

import itertools
import random
import sys
import time

import z3

from lib import runner
from ovld import call_next  # noqa: F401  (used by the methods of the long-history family)
from symx.engine import Verdict
from symx.kit import MethodSet, full_outcome
from symx.world import World

PID = "C04"


def make_world(ex, shape, real):
    return World(ex, shape["n"], nprio=len(shape["methods"]), real=real)


_MS = {}


def specs(shape):
    n = shape["n"]
    out = []
    for m, md in enumerate(shape["methods"]):
        t = md["t"]
        if isinstance(t, list):
            # two dispatched positions
            k = md["kind"]
            body = {"ret": f"return {m}", "next": f"return ({m}, call_next(x, y))",
                    "trynext": f"try:\n    return ({m}, call_next(x, y))\nexcept TypeError as e:\n    return ({m}, str(e)[:9])"}[k]
            out.append(dict(pos=[("x", ("obj",) if t[0] == n else ("K", t[0]), False), ("y", ("obj",) if t[1] == n else ("K", t[1]), False)], body=body))
            continue
        term = ("obj",) if t == n else ("K", t)
        if md.get("dep") is not None:
            term = ("Dep", term, md["dep"])
        k = md["kind"]
        if k == "ret":
            body = f"return {m}"
        elif k == "next":
            body = f"return ({m}, call_next(x))"
        elif k == "fwd":
            body = f"return ({m}, call_next(FW{m}))"
        elif k == "rec":  # bounded re-entry (a guard against unbounded recursion, not part of the scenario)
            body = (f"DEPTH[0] += 1\ntry:\n    return ({m}, recurse(FW{m})) if DEPTH[0] <= 2 else {m}\n"
                    f"finally:\n    DEPTH[0] -= 1")
        elif k == "trynext":  # swallow the error of the continuation: remembered errors must not leak elsewhere
            body = f"try:\n    return ({m}, call_next(x))\nexcept TypeError as e:\n    return ({m}, str(e)[:9])"
        out.append(dict(pos=[("x", term, False)], body=body))
    return out


def make_run_values(W, shape):
    """value-dependent annotations whose check looks INTO the argument (Callable[[...], ...] reads the signature of the function passed;
    list[...] / tuple[...] look at elements): arguments of one class that are told apart only by that look, called in every order -- each
    call must answer like the first call ever made on a fresh function"""
    import itertools as it
    from typing import Callable

    from ovld import Ovld
    from ovld.dependent import EndsWith, HasKey, StartsWith

    def factory(t):
        def g(x: t) -> t:         # one def statement, several function objects with different annotations
            return x
        return g

    # (value, the method its documented meaning selects -- what a first call in a fresh process answers)
    VALUES = [("g[int]", factory(int), 0), ("g[str]", factory(str), 1), ("g[float]", factory(float), 4),
              ("[1]", [1], 2), ("['a']", ["a"], 4), ("(1, 'a')", (1, "a"), 3), ("('a', 1)", ("a", 1), 4),
              ("'az'", "az", 5), ("'bq'", "bq", 4), ("'cz'", "cz", 4), ("'bz'", "bz", 5)]
    perms = list(it.permutations(range(len(VALUES)), 3))

    def mk():
        LOG = []

        def m0(fn: Callable[[int], int]):
            LOG.append((0,))
            return 0

        def m1(fn: Callable[[str], str]):
            LOG.append((1,))
            return 1

        def m2(xs: list[int]):
            LOG.append((2,))
            return 2

        def m3(xs: tuple[int, str]):
            LOG.append((3,))
            return 3

        def m4(x: object):
            LOG.append((4,))
            return 4

        def m6(d: HasKey["a"]):
            LOG.append((6,))
            return 6

        def m5(s: (StartsWith["a"] | StartsWith["b"]) & EndsWith["z"]):      # value-dependent leaves inside nested combinators
            LOG.append((5,))
            return 5
        ov = Ovld()
        for fn, p in ((m0, 0), (m1, 0), (m2, 0), (m3, 0), (m4, -1), (m5, 0), (m6, 0)):
            ov.register(fn, priority=p)
        return ov, LOG

    def run(ctx):
        seq = perms[ctx.choose("history", len(perms))]
        ov, LOG = mk()
        ok, trace = True, []
        for i in seq:
            name, v, exp = VALUES[i]
            got = full_outcome(lambda: ov.dispatch(v), LOG)
            ref, LOG2 = mk()
            first = full_outcome(lambda: ref.dispatch(v), LOG2)
            trace.append(dict(call=name, got=got, on_a_fresh_function=first, documented=exp))
            # (a fresh function in the SAME process shares whatever the library remembers module-wide: the documented meaning decides)
            if got != first or got[0] != [exp]:
                ok = False
        # the SAME object, changed between two calls: each call answers for the value as it is now
        d, lst = {}, ["x"]
        script = [("{}", d, None, 4), ("{'a': 1}", d, lambda: d.__setitem__("a", 1), 6), ("{} again", d, lambda: d.clear(), 4),
                  ("['x']", lst, None, 4), ("[1]", lst, lambda: lst.__setitem__(0, 1), 2), ("['y']", lst, lambda: lst.__setitem__(0, "y"), 4)]
        for name, v, change, exp in script:
            if change is not None:
                change()
            got = full_outcome(lambda: ov.dispatch(v), LOG)
            trace.append(dict(call=name + " (same object, mutated)", got=got, documented=exp))
            if got[0] != [exp]:
                ok = False
        return Verdict(ok, (), dict(family="arguments told apart by a look into the value", trace=trace), ["values"], nontrivial=True)

    return run


def make_run_wide(W, shape):
    """a long history over MANY argument classes (more than any bounded table would keep): after every new class the first calls are
    repeated and must answer as they did the first time -- in particular the continuation of a call_next chain must not get lost while the
    entry that leads to it is kept"""
    from ovld import Ovld

    N = shape["wide"]

    def run(ctx):
        class Base:
            pass

        LOG = []

        def top(x: Base):
            LOG.append((0,))
            return ("top", call_next(x))

        def mid(x: Base):
            LOG.append((1,))
            return ("mid", call_next(x))

        def bottom(x: object):
            LOG.append((2,))
            return "bottom"
        ov = Ovld()
        ov.register(top, priority=2)
        ov.register(mid, priority=1)
        ov.register(bottom, priority=0)
        classes = [type(f"S{i}", (Base,), {}) for i in range(N)]
        firsts = [classes[i]() for i in range(3)]
        expect = [full_outcome(lambda: ov.dispatch(v), LOG) for v in firsts]
        ok, trace = True, []
        for i in range(3, N):
            full_outcome(lambda: ov.dispatch(classes[i]()), LOG)
            for v, e in zip(firsts, expect):
                got = full_outcome(lambda: ov.dispatch(v), LOG)
                if got != e:
                    ok = False
                    if len(trace) < 4:
                        trace.append(dict(after_classes=i + 1, repeated=type(v).__name__, got=got, first_time=e))
        return Verdict(ok, (), dict(family="long history over many classes", classes=N, differences=trace), ["wide"], nontrivial=True)

    return run


def make_run(W, shape, known_active=None):
    from ovld import Ovld

    if shape.get("values"):
        return make_run_values(W, shape)
    if shape.get("wide"):
        return make_run_wide(W, shape)
    n = shape["n"]
    methods = shape["methods"]
    M = len(methods)
    L = shape["L"]
    key = repr(methods)
    ms = _MS.get(key)
    if ms is None:
        ms = _MS[key] = MethodSet(specs(shape))
    has_dep = any(md.get("dep") is not None for md in methods)
    CH = [0, 1, n]  # argument classes offered to the selector: K0, K1, plain object()
    two = isinstance(methods[0]["t"], list)

    def run(ctx):
        def mk():
            extra = {"DEPTH": [0]}
            for m, md in enumerate(methods):
                if md["kind"] in ("fwd", "rec"):
                    extra[f"FW{m}"] = W.inst[md["fw"]] if md["fw"] != n else object()
            hs, LOG, ns = ms.instantiate(W, extra=extra)
            ov = Ovld()
            for m in range(M):
                ov.register(hs[m], priority=W.prio[m])
            return ov, LOG

        def arg(c, flag):
            if c == n:
                return object()
            a = W.K[c]()
            a.flag = flag
            return a

        shared, LOGs = mk()
        hist = []
        ok = True
        picks = []
        freshc = {}
        for i in range(L):
            if i < 2:
                c = CH[ctx.choose(f"c{i}", 3)]
                flag = bool(ctx.choose(f"flag{i}", 2)) if has_dep and c != n else False
                if two:
                    flag = CH[ctx.choose(f"d{i}", 3)]     # (second position's class, carried in the flag slot)
                picks.append((c, flag))
            else:  # later calls repeat earlier ones: they must be answered from the cache exactly alike
                c, flag = picks[i % 2]
            if two:
                a1 = (arg(c, False), arg(flag, False))
                o_shared = full_outcome(lambda: shared.dispatch(*a1), LOGs)
            else:
                a1 = arg(c, flag)
                o_shared = full_outcome(lambda: shared.dispatch(a1), LOGs)
            if (c, flag) not in freshc:  # reference: first call ever on a brand-new function (same model)
                fresh, LOGf = mk()
                if two:
                    a2 = (arg(c, False), arg(flag, False))
                    freshc[(c, flag)] = full_outcome(lambda: fresh.dispatch(*a2), LOGf)
                else:
                    a2 = arg(c, flag)
                    freshc[(c, flag)] = full_outcome(lambda: fresh.dispatch(a2), LOGf)
            o_fresh = freshc[(c, flag)]
            hist.append(dict(cls=c, flag=flag, shared=o_shared, fresh=o_fresh))
            if o_shared != o_fresh:
                ok = False
        tags = ["hist:" + ",".join(h["shared"][1][0] for h in hist)]
        nontrivial = len({h["cls"] for h in hist}) < L or any(len(h["shared"][0]) > 1 for h in hist)
        return Verdict(ok, (), dict(history=hist), tags, nontrivial=nontrivial)

    return run


def gen_shapes(tier, seed):
    rng = random.Random(seed)
    n = 3
    shapes = []
    kinds = ["ret", "next", "trynext"]
    for mt in itertools.product(range(n + 1), repeat=3):
        for ks in itertools.product(kinds, repeat=3):
            shapes.append(dict(n=n, L=4, methods=[dict(t=t, kind=k) for t, k in zip(mt, ks)]))
    fw = []
    for mt in itertools.product(range(n + 1), repeat=3):
        for who in range(3):
            for kind in ("fwd", "rec"):
                for c in range(n + 1):
                    md = [dict(t=t, kind="next") for t in mt]
                    md[who] = dict(t=mt[who], kind=kind, fw=c)
                    if kind == "rec":
                        md[(who + 1) % 3]["kind"] = "ret"
                    fw.append(dict(n=n, L=4, methods=md))
    dep = []
    for mt in itertools.product(range(n + 1), repeat=3):
        for dm in itertools.product((None, 3, 4), repeat=3):
            if all(d is None for d in dm):
                continue
            for ks in (("ret",) * 3, ("next", "ret", "ret"), ("trynext", "next", "ret"), ("next", "next", "next")):
                dep.append(dict(n=n, L=4, methods=[dict(t=t, kind=k, dep=d) for t, k, d in zip(mt, ks, dm)]))
    two = []
    pool2 = list(itertools.product(range(n + 1), repeat=2))
    for _ in range(2000):
        mt = [list(rng.choice(pool2)) for _ in range(rng.choice((1, 2, 3)))]
        ks = [rng.choice(("ret", "ret", "next", "trynext")) for _ in mt]
        two.append(dict(n=n, L=4, methods=[dict(t=t, kind=k) for t, k in zip(mt, ks)]))
    total = len(shapes) + len(fw) + len(dep) + len(two)
    for f in (shapes, fw, dep):
        rng.shuffle(f)
    if tier == "quick":
        out = shapes[:25] + fw[:20] + dep[:25] + two[:30] + [dict(n=n, L=3, values=True, methods=[]), dict(n=n, L=3, wide=1200, methods=[])]
    else:
        out = shapes[:700] + fw[:550] + dep[:700] + two[:900] + [dict(n=n, L=3, values=True, methods=[]), dict(n=n, L=3, wide=2600, methods=[])]
    return out, total, True


def explore_shape(shape, tier="quick", seed=0, budget_s=120, validate=0):
    return runner.explore_symbolic(make_world, make_run, shape, seed=seed,
                                   deadline=time.time() + budget_s, validate=validate)


def replay(rec):
    return runner.replay_record(sys.modules[__name__], rec)


def main(tier, seed):
    t0 = time.time()
    runner.assert_real_code()
    shapes, total, sampled = gen_shapes(tier, seed)
    kw = dict(tier=tier, seed=seed, budget_s=60 if tier == "quick" else 200, validate=1)
    results = runner.pmap("props.c04", "explore_shape", shapes, kw, chunksize=1)
    return runner.finish(
        PID, tier, seed, t0, results,
        bounds=dict(classes=3, methods="3 (1-3 in the two-position family)", positions="1 (2 in the two-position family)", history_length="4 calls: two solver-chosen calls, then both repeated",
                    call_arguments="instance of K0 / K1 / a plain object(), chosen per call by a solver selector (K2 only as a method type); "
                                   "value-dependent flag per call (solver selector)",
                    bodies="return | call_next(x) | try call_next(x) except TypeError | call_next(other) | recurse(other); "
                           "Dependent[Ki, flag-predicate] annotations",
                    priorities="unbounded integers (symbolic)", hierarchy="every partial order (symbolic)"),
        rule="one state = one (method set) x class of (hierarchy, priorities, history of argument classes/flags); "
             "non-trivial = a class repeats in the history or a call delegates",
        stubs=["SymMeta classes", "SymInt priorities", "solver selectors for the history"],
        dont_care=[],
        assumptions=["differential oracle: a freshly built function under the same model is the reference"],
        shapes_total=total, shapes_sampled=sampled, mod=sys.modules[__name__],
    )
