"""C01 -- a method only ever runs on arguments its declared signature accepts.

Symbolic: subclass relation R, has-method booleans, priorities.
Enumerated: method sets (arity 1-2 with optional positional, keyword-only parameter, annotations from classes /
object / Union / Intersection / Exactly / StrictSubclass / HasMethod, and Dependent types with constant conditions nested in them), bodies that delegate through recurse /
call_next with the same or differently-typed arguments, call shapes.
Oracle: closed-form `member` (documented meaning of each annotation) asserted on every logged method entry, for every
supplied argument; an arity / keyword mismatch shows up as Python's own TypeError when the handler is invoked.
The value-level part (Literal / Dependent / tuple / StartsWith...) is decided by the CrossHair harnesses of C10/C11,
whose method bodies assert their own documented condition.
"""

import itertools
import random
import sys
import time

import z3

from lib import runner
from symx.engine import Verdict
from symx.kit import Default, MethodSet, member, term_str
from symx.world import World

PID = "C01"


def tt(x):
    return tuple(tt(y) for y in x) if isinstance(x, list) else x


def make_world(ex, shape, real):
    if shape.get("kind") == "punion":
        from props import c14

        return c14.make_world(ex, shape, real)
    return World(ex, shape["n"], nprio=len(shape["methods"]), real=real, hm_names=("hm",))


_MS = {}


def specs(shape):
    out = []
    for m, md in enumerate(shape["methods"]):
        pos = [(nm, tt(t), opt) for nm, t, opt in md["pos"]]
        kw = [(nm, tt(t), opt) for nm, t, opt in md.get("kw", [])]
        k = md["kind"]
        names = [nm for nm, _, _ in pos]
        if k == "ret":
            body = f"return {m}"
        elif k == "next":
            body = f"return ({m}, call_next({', '.join(names)}))"
        elif k in ("fwd", "rec"):
            fn = "call_next" if k == "fwd" else "recurse"
            args = ", ".join(f"FW{m}_{q}" for q in range(len(md["fw"])))
            kws = f", k=FWK{m}" if md.get("fwk") is not None else ""
            body = (f"DEPTH[0] += 1\ntry:\n    return ({m}, {fn}({args}{kws})) if DEPTH[0] <= 2 else {m}\n"
                    f"finally:\n    DEPTH[0] -= 1")
        out.append(dict(pos=pos, kw=kw, body=body))
    return out


def make_run(W, shape, known_active=None):
    from ovld import Ovld

    if shape.get("kind") == "punion":
        # a union object passed to a method on type[T]: never entered unless every member is a subtype of T (shared with C14)
        from props import c14

        return c14.make_run_punion(W, shape)
    n = shape["n"]
    methods = shape["methods"]
    M = len(methods)
    key = repr(methods)
    ms = _MS.get(key)
    if ms is None:
        ms = _MS[key] = MethodSet(specs(shape))

    def inst(c):
        return W.inst[c] if c != n else object()

    def cls_of(a):
        i = getattr(type(a), "_idx", None)
        return n if i is None else i

    hm = lambda c, name: W.has(c, name)  # noqa: E731

    def run(ctx):
        extra = {"DEPTH": [0]}
        for m, md in enumerate(methods):
            if md["kind"] in ("fwd", "rec"):
                for q, c in enumerate(md["fw"]):
                    extra[f"FW{m}_{q}"] = inst(c)
                if md.get("fwk") is not None:
                    extra[f"FWK{m}"] = inst(md["fwk"])
        hs, LOG, ns = ms.instantiate(W, extra=extra)
        ov = Ovld()
        for m in range(M):
            ov.register(hs[m], priority=W.prio[m])
        conj = []
        trace = []
        entries = 0
        for (argc, kwc) in shape["calls"]:
            args = [inst(c) for c in argc]
            kwargs = {"k": inst(kwc)} if kwc is not None else {}
            del LOG[:]
            err = None
            try:
                ov.dispatch(*args, **kwargs)
            except TypeError as e:
                msg = str(e)
                import re

                # Python's own binding error raised by a *handler* (their names look like "h0[K1, *]"): a method was
                # invoked with a call shape it does not accept.  The same error raised by the generated entry point
                # (named after the function, no brackets) is an ordinary rejection of the call.
                if re.match(r"^[\w.]+\[[^\]]*\]\(\)", msg):
                    err = msg[:100]
            except RecursionError:
                err = "RecursionError"
            except Exception as e:  # noqa: BLE001  an internal failure is not an entry with excluded arguments (see C06 notes)
                internal = type(e).__name__
            rec = dict(call=[argc, kwc], entered=[e[0] for e in LOG], binding_error=err)
            conj.append(z3.BoolVal(err is None))
            for (m, posv, kwv, _s) in LOG:
                entries += 1
                md = methods[m]
                for (nm, t, opt), a in zip(md["pos"], posv):
                    if isinstance(a, Default):
                        continue
                    conj.append(member(tt(t), cls_of(a), W, hm))
                for (nm, t, opt) in md.get("kw", []):
                    a = kwv[nm]
                    if isinstance(a, Default):
                        continue
                    conj.append(member(tt(t), cls_of(a), W, hm))
            trace.append(rec)
        return Verdict(z3.And(conj), (), dict(trace=trace), [f"entries{min(entries, 9)}"], nontrivial=entries >= 2)

    return run


def gen_shapes(tier, seed):
    rng = random.Random(seed)
    n = 3
    K = [["K", i] for i in range(n)]
    terms = K + [["obj"], ["U", K[0], K[1]], ["U", K[1], K[2]], ["I", K[0], K[1]], ["I", K[1], K[2]], ["Ex", K[0]], ["Ex", K[1]],
                 ["SS", K[0]], ["SS", K[1]], ["HM", "hm"], ["U", ["Ex", K[0]], K[2]], ["I", ["HM", "hm"], K[1]]]
    # value-dependent members (constant conditions: p0/p1 hold on everything, p2 on nothing) next to plain classes inside the combinators:
    # an argument class may qualify for one arm of a union only, the generated run-time check must still test the plain members
    DT, DF = ["Dep", ["obj"], 0], ["Dep", ["obj"], 2]
    terms += [["U", ["I", K[0], DT], ["I", K[1], DF]], ["U", ["I", K[1], DF], ["I", K[0], ["Dep", ["obj"], 1]]], ["I", K[1], ["Dep", K[1], 0]],
              ["U", ["Dep", K[0], 2], K[2]], ["Dep", K[1], 0], ["U", ["I", K[2], DF], ["Dep", K[0], 0]]]
    N = 700 if tier == "quick" else 9000
    out = []
    CH = [0, 1, 2, n]
    for _ in range(N):
        M = rng.choice((2, 3, 3))
        methods = []
        for m in range(M):
            npos = rng.choice((1, 1, 2))
            pos = [["xy"[q], rng.choice(terms), q == 1 and rng.random() < 0.4] for q in range(npos)]
            if rng.random() < 0.15:
                pos[0][0] = "cls"          # an ordinary function whose first parameter happens to be called cls: dispatched like any other
            kw = []
            r = rng.random()
            if r < 0.25:
                kw = [["k", rng.choice(terms), rng.random() < 0.5]]
            kind = rng.choice(("ret", "ret", "next", "fwd", "rec"))
            md = dict(pos=pos, kw=kw, kind=kind)
            if kind in ("fwd", "rec"):
                md["fw"] = [rng.choice(CH) for _ in range(rng.choice((1, 2)))]
                md["fwk"] = rng.choice(CH) if rng.random() < 0.25 else None
            methods.append(md)
        calls = []
        for _c in range(4):
            nargs = rng.choice((1, 1, 2))
            calls.append([[rng.choice(CH) for _ in range(nargs)], rng.choice(CH) if rng.random() < 0.3 else None])
        out.append(dict(n=n, methods=methods, calls=calls))
    pun = [dict(n=n, kind="punion", ann=T, members=[a, b], spelling=sp) for T in (["K", 0], ["K", 1]) for a in range(n) for b in range(n) if a != b
           for sp in ("pipe", "typing", "optional")]
    return out + pun, N + len(pun), True


def explore_shape(shape, tier="quick", seed=0, budget_s=20, validate=0):
    return runner.explore_symbolic(make_world, make_run, shape, seed=seed,
                                   deadline=time.time() + budget_s, validate=validate, validate_mode="verdict")


def replay(rec):
    if rec.get("engine") == "crosshair":
        from props.c10 import replay as r10

        return r10(rec)
    return runner.replay_record(sys.modules[__name__], rec)


def e1_part(tier, seed):
    """value level: CrossHair on method sets whose bodies re-check their own documented condition (positional and
    keyword-only value-dependent parameters; entry directly, through recurse and through call_next)"""
    import json
    import os

    from lib import xhrun
    from xh import gen

    hs = [(f"c01_{v}", gen.entry_guard_module(v), dict(family="entry guards", variant=v))
          for v in ("kwonly_literal", "kwonly_dependent", "positional_mix", "nested_combinators", "same_parameters_other_bound", "kwonly_only")]
    from props.c11 import literal_mixed_modules, literal_union_modules, tuple_element_modules
    hs += [(f"c01_{n_}", src_, dict(meta_)) for n_, src_, meta_ in literal_mixed_modules()]
    hs += [(f"c01_{n_}", src_, dict(meta_)) for n_, src_, meta_ in literal_union_modules()]
    hs += [(f"c01_{n_}", src_, dict(meta_, family="value-dependent element types of tuple[...]")) for n_, src_, meta_ in tuple_element_modules()]
    code = xhrun.main(PID, tier, seed, hs, bounds=dict(values="int unbounded, str len <= 2"), rule="see symx part", mod=None)
    with open(os.path.join(runner.EVID, f"{PID}.json")) as fh:
        cov = json.load(fh)["coverage"]
    return code, {k: cov[k] for k in ("harness_modules", "check_conditions", "confirmed_over_all_paths", "inconclusive",
                                       "counterexamples_replayed", "reachability_witnessed", "samples")}


def main(tier, seed):
    t0 = time.time()
    runner.assert_real_code()
    code_e1, cov_e1 = e1_part(tier, seed)
    shapes, total, sampled = gen_shapes(tier, seed)
    kw = dict(tier=tier, seed=seed, budget_s=10 if tier == "quick" else 60, validate=1)
    results = runner.pmap("props.c01", "explore_shape", shapes, kw, chunksize=2)
    code = runner.finish(
        PID, tier, seed, t0, results, extra=dict(value_level_part_crosshair=cov_e1),
        bounds=dict(classes=3, methods="2-3", positionals="1-2 (second may be optional)", keyword_only="optional/required `k` on a quarter of the methods",
                    annotations="Ki, object, Union, Intersection, Exactly, StrictSubclass, HasMethod, nested depth 2",
                    bodies="return | call_next(same) | call_next(other args) | recurse(other args) (re-entry depth <= 2)",
                    calls="4 call shapes per method set (1-2 positionals from K0,K1,K2,object(); optional keyword)",
                    method_sets="random sample (seeded)", priorities="symbolic integers", hierarchy="every partial order; has-method symbolic"),
        rule="one state = one (method set, calls) x class of (hierarchy, has-method, priorities); non-trivial = >= 2 method entries logged",
        stubs=["SymMeta classes", "SymInt priorities"],
        dont_care=["errors (which error, whether an error): C02's subject; this is a pure safety statement"],
        assumptions=["parameters left to their defaults are not type-checked (the default object is the method's own)",
                     "value-dependent annotations: three CrossHair harness modules run as part of this check (coverage.value_level_part_crosshair) "
                     "and the C10/C11 harnesses; type[...] by C14"],
        shapes_total=total, shapes_sampled=sampled, mod=sys.modules[__name__],
    )
    return max(code, code_e1) if 1 not in (code, code_e1) else 1
