"""C15 -- equivalent spellings of an annotation dispatch identically.

Symbolic: subclass relation R, priorities.  Enumerated: (spelling A, spelling B) of one annotation, a surrounding
method set, probe arguments.  Oracle (differential): the function built with spelling A and the one built with
spelling B give the same outcome for every probe under the same model.
"""

import itertools
import random
import sys
import time
import typing

import z3

from lib import runner
from symx.engine import Verdict
from symx.kit import MethodSet, full_outcome
from symx.world import World

PID = "C15"
KNOWN_ASYM = "C06-asymmetric-typeorder"


def make_world(ex, shape, real):
    return World(ex, shape["n"], nprio=3, real=real)


def spell(code, W, ns):
    """annotation object for a spelling code"""
    import ovld.types as OT

    K = W.K
    A, B, C = K[0], K[1], K[2]
    table = {
        "tU[A,B]": lambda: typing.Union[A, B], "tU[B,A]": lambda: typing.Union[B, A], "A|B": lambda: A | B, "B|A": lambda: B | A,
        "(A,B)": lambda: (A, B), "(B,A)": lambda: (B, A), "oU[A,B]": lambda: OT.Union[A, B], "oU[B,A]": lambda: OT.Union[B, A],
        "tU[A,B,C]": lambda: typing.Union[A, B, C], "C|A|B": lambda: C | A | B, "(B,C,A)": lambda: (B, C, A),
        "Opt[A]": lambda: typing.Optional[A], "A|None": lambda: A | None, "None|A": lambda: None | A,
        "tU[A,None]": lambda: typing.Union[A, None], "(A,NoneType)": lambda: (A, type(None)),
        "missing": lambda: MISSING, "Any": lambda: typing.Any, "object": lambda: object,
        "Ann[A]": lambda: typing.Annotated[A, "meta"], "A": lambda: A, "'A'": lambda: "KA", "'A|B'": lambda: "KA | KB",
        "Ann[A|B]": lambda: typing.Annotated[A | B, 1, 2], "'Opt[A]'": lambda: "typing.Optional[KA]",
        "list[A]": lambda: list[A], "List[A]": lambda: typing.List[A], "'list[A]'": lambda: "list[KA]",
        "'Any'": lambda: "typing.Any", "'object'": lambda: "object", "'Ann[A]'": lambda: "typing.Annotated[KA, 'meta']",
        "'tU[A,B]'": lambda: "typing.Union[KA, KB]", "'(A,B)'": lambda: "(KA, KB)", "'Ann[A|B]'": lambda: "typing.Annotated[KA | KB, 1]",
        "'A|None'": lambda: "KA | None", "'Lit[0,1]'": lambda: "typing.Literal[0, 1]", "'List[A]'": lambda: "typing.List[KA]",
        "Ann[Any]": lambda: typing.Annotated[typing.Any, "meta"], "Ann[object]": lambda: typing.Annotated[object, 1],
        "(A,None)": lambda: (A, None), "tU[None,A]": lambda: typing.Union[None, A],
        "Lit[True,1]": lambda: typing.Literal[True, 1], "Lit[1,True]": lambda: typing.Literal[1, True],
        "Lit[False,2]": lambda: typing.Literal[False, 2], "Lit[2,False]": lambda: typing.Literal[2, False],
        "Lit[0,1]": lambda: typing.Literal[0, 1], "Lit[1,0]": lambda: typing.Literal[1, 0],
        "Lit[0,'a']": lambda: typing.Literal[0, "a"], "Lit['a',0]": lambda: typing.Literal["a", 0],
        "Lit[1,2,3]": lambda: typing.Literal[1, 2, 3], "Lit[3,1,2]": lambda: typing.Literal[3, 1, 2],
        "Opt['A']": lambda: typing.Optional["KA"], "tU['A',B]": lambda: typing.Union["KA", B], "List['A']": lambda: typing.List["KA"],
        "list['A']": lambda: list["KA"], "('A',B)": lambda: ("KA", B),
        "Ann['A']": lambda: typing.Annotated["KA", 1], "type['A']": lambda: type["KA"], "type[Ann[A]]": lambda: type[typing.Annotated[A, 1]],
        "Opt[Ann[A]]": lambda: typing.Optional[typing.Annotated[A, "m"]],
        "list[A]|B": lambda: list[A] | B, "tU[list[A],B]": lambda: typing.Union[list[A], B], "list[A]|None": lambda: list[A] | None,
        "Opt[list[A]]": lambda: typing.Optional[list[A]], "(list[A],B)": lambda: (list[A], B),
        "Ex[A]|None": lambda: OT.Exactly[A] | None, "None|Ex[A]": lambda: None | OT.Exactly[A], "Opt[Ex[A]]": lambda: typing.Optional[OT.Exactly[A]],
        "type[A|B]": lambda: type[A | B], "type[tU[A,B]]": lambda: type[typing.Union[A, B]], "bare Type": lambda: typing.Type, "bare type": lambda: type,
        "'Text'": lambda: "Text", "'Text|Counter'": lambda: "Text | Counter", "'Opt[List]'": lambda: "typing.Optional[List]",
        "dict[A,B]": lambda: dict[A, B], "Dict[A,B]": lambda: typing.Dict[A, B],
        "type[A]": lambda: type[A], "Type[A]": lambda: typing.Type[A],
    }
    return table[code]()


MISSING = object()
PAIRS = [
    ("tU[A,B]", "A|B"), ("tU[A,B]", "(A,B)"), ("tU[A,B]", "oU[A,B]"), ("tU[A,B]", "tU[B,A]"), ("A|B", "B|A"), ("(A,B)", "(B,A)"),
    ("oU[A,B]", "oU[B,A]"), ("tU[A,B,C]", "C|A|B"), ("tU[A,B,C]", "(B,C,A)"), ("A|B", "'A|B'"), ("A|B", "Ann[A|B]"),
    ("Opt[A]", "A|None"), ("Opt[A]", "(A,None)"), ("Opt[A]", "tU[None,A]"), ("Opt[A]", "None|A"), ("Opt[A]", "tU[A,None]"), ("Opt[A]", "(A,NoneType)"), ("Opt[A]", "'Opt[A]'"),
    ("missing", "Any"), ("missing", "object"), ("Any", "object"),
    ("Ann[A]", "A"), ("'A'", "A"), ("Ann[Any]", "Any"), ("Ann[Any]", "missing"), ("Ann[object]", "object"), ("'Any'", "object"), ("'Any'", "missing"), ("'object'", "Any"), ("'Ann[A]'", "A"), ("'Ann[A]'", "Ann[A]"),
    ("'tU[A,B]'", "A|B"), ("'(A,B)'", "tU[A,B]"), ("'Ann[A|B]'", "A|B"), ("'A|None'", "Opt[A]"), ("'Lit[0,1]'", "Lit[1,0]"), ("'List[A]'", "list[A]"),
    ("list[A]", "List[A]"), ("list[A]", "'list[A]'"),
    # a string nested inside a typing construct (typing wraps it in a ForwardRef) names the same type as the whole-annotation string
    # a string names what the module's own globals bind it to, also when typing exports the same name
    ("'Text'", "A"), ("'Text|Counter'", "A|B"), ("'Opt[List]'", "Opt[A]"),
    ("list[A]|B", "tU[list[A],B]"), ("list[A]|None", "Opt[list[A]]"), ("list[A]|B", "(list[A],B)"),
    ("Ex[A]|None", "Opt[Ex[A]]"), ("None|Ex[A]", "Opt[Ex[A]]"),
    ("type[A|B]", "type[tU[A,B]]"), ("bare Type", "bare type"),
    ("Ann['A']", "A"), ("type['A']", "type[A]"), ("type[Ann[A]]", "type[A]"), ("Opt[Ann[A]]", "Opt[A]"),
    ("Opt[A]", "Opt['A']"), ("tU[A,B]", "tU['A',B]"), ("list[A]", "List['A']"), ("list[A]", "list['A']"), ("(A,B)", "('A',B)"),
    ("Lit[0,1]", "Lit[1,0]"), ("Lit[True,1]", "Lit[1,True]"), ("Lit[False,2]", "Lit[2,False]"), ("Lit[0,'a']", "Lit['a',0]"), ("Lit[1,2,3]", "Lit[3,1,2]"),
]
SURROUND = ["none", "obj", "A", "B", "C", "A|C", "B|C", "obj,A", "obj,B|C", "int", "list", "type"]
_MS = MethodSet([dict(pos=[("x", ("obj",), False)]) for _ in range(3)])
_MSD = MethodSet([dict(pos=[("x", ("obj",), False)]) for _ in range(4)])
_MS0 = MethodSet([dict(pos=[("x", ("obj",), False)]) for _ in range(3)])


def surround_types(code, W):
    K = W.K
    t = {"none": [], "obj": [object], "A": [K[0]], "B": [K[1]], "C": [K[2]], "A|C": [K[0] | K[2]], "B|C": [K[1] | K[2]],
         "obj,A": [object, K[0]], "obj,B|C": [object, K[1] | K[2]], "int": [int], "list": [list], "type": [type]}
    return t[code]


def make_run(W, shape, known_active=None):
    from ovld import Ovld

    if known_active is None:
        known_active = runner.active_known_ids(PID)
    n = shape["n"]
    sa, sb = shape["pair"]
    sur = shape["surround"]

    def mk(code):
        hs, LOG, ns = _MS.instantiate(W)
        ns["KA"], ns["KB"], ns["typing"] = W.K[0], W.K[1], typing
        ns["Text"], ns["Counter"], ns["List"] = W.K[0], W.K[1], W.K[0]      # module-level names that typing also exports, bound to the user's classes
        ann = spell(code, W, ns)
        if ann is MISSING:
            hs[0].__annotations__ = {}
        else:
            hs[0].__annotations__ = {"x": ann}
        ov = Ovld()
        ov.register(hs[0], priority=W.prio[0])
        for j, t in enumerate(surround_types(sur, W)):
            hs[1 + j].__annotations__ = {"x": t}
            ov.register(hs[1 + j], priority=W.prio[1 + j])
        ov._harness_types = [hs[0].__annotations__.get("x", object)] + list(surround_types(sur, W))
        return ov, LOG

    def asym_applicable(ov, a):
        """recorded mechanism C06-asymmetric-typeorder: two registered types, both applicable to the argument, whose
        typeorder is not mirror-symmetric -> the layering depends on the iteration order of the type set, hence on
        the hash of the annotation (which changes with the spelling)"""
        from ovld import subclasscheck, typeorder
        from ovld.types import normalize_type
        from ovld.utils import subtler_type

        ts = []
        for t in ov._harness_types:
            try:
                ts.append(normalize_type(t, ov.dispatch))
            except Exception:  # noqa: BLE001
                return False
        key = subtler_type(a) if any(hasattr(t, "__origin__") for t in ts) else type(a)
        for i in range(len(ts)):
            for j in range(i + 1, len(ts)):
                if subclasscheck(key, ts[i]) and subclasscheck(key, ts[j]):
                    d1, d2 = typeorder(ts[i], ts[j]), typeorder(ts[j], ts[i])
                    if d2 is not d1.opposite():
                        return True
        return False

    def probes():
        K = W.K
        ps = [("K0()", lambda: W.inst[0]), ("K1()", lambda: W.inst[1]), ("K2()", lambda: W.inst[2]), ("object()", object),
              ("None", lambda: None)]
        if "list" in sa or "List" in sa or sur == "list":
            ps += [("[K0()]", lambda: [W.inst[0]]), ("[K1()]", lambda: [W.inst[1]]), ("[]", list), ("[K2(),K0()]", lambda: [W.inst[2], W.inst[0]])]
        if "dict" in sa or "Dict" in sa:
            ps += [("{K0():K1()}", lambda: {W.inst[0]: W.inst[1]}), ("{K1():K0()}", lambda: {W.inst[1]: W.inst[0]}), ("{}", dict)]
        if "Lit" in sa or sur == "int":
            ps += [(repr(v), (lambda v=v: v)) for v in (0, 1, 2, 3, 4, "a", "b", True, 1.0)]
        if "ype" in sa or sur == "type":
            ps += [("K0", lambda: K[0]), ("K1", lambda: K[1]), ("K2", lambda: K[2]), ("object", lambda: object), ("int", lambda: int)]
        return ps

    class Broken:
        """a spelling that cannot even be registered / built: every probe reports the failure"""

        def __init__(self, e):
            self.e = e
            self._harness_types = []

        def dispatch(self, a):
            raise RuntimeError(f"registration failed: {type(self.e).__name__}")

    def mk_safe(code):
        try:
            ov, LOG = mk(code)
            ov.dispatch  # noqa: B018
            return ov, LOG
        except Exception as e:  # noqa: BLE001
            return Broken(e), []

    def mk_twice(first, second):
        """one function in which the annotated method is defined twice, under the two spellings: the same signature, so the later definition
        replaces the earlier one (the earlier one only stays reachable through call_next, which these bodies do not use)"""
        hs, LOG, ns = _MSD.instantiate(W)
        ns["KA"], ns["KB"], ns["typing"] = W.K[0], W.K[1], typing
        ns["Text"], ns["Counter"], ns["List"] = W.K[0], W.K[1], W.K[0]
        ov = Ovld()
        for m, code in ((0, first), (1, second)):
            ann = spell(code, W, ns)
            hs[m].__annotations__ = {} if ann is MISSING else {"x": ann}
            ov.register(hs[m], priority=W.prio[0])
        for j, t in enumerate(surround_types(sur, W)):
            hs[2 + j].__annotations__ = {"x": t}
            ov.register(hs[2 + j], priority=W.prio[1 + j])
        return ov, LOG

    def run_twice(ctx):
        try:
            f2, L2 = mk_twice(sa, sb)
            f2.dispatch  # noqa: B018
        except Exception as e:  # noqa: BLE001
            f2, L2 = Broken(e), []
        f1, L1 = mk_safe(sb)
        trace, ok = [], True
        for name, mkarg in probes():
            a = mkarg()
            o2 = full_outcome(lambda: f2.dispatch(a), L2)
            o1 = full_outcome(lambda: f1.dispatch(a), L1)
            # method numbering: single function 0 = annotated, 1.. = surround; double function 1 = the later definition, 2.. = surround
            exp = ([m + 1 for m in o1[0]], o1[1])
            trace.append(dict(arg=name, defined_twice=o2, later_definition_alone=o1))
            if (o2[0], o2[1][0]) != (exp[0], exp[1][0]):
                ok = False
        ran = sum(1 for t in trace if t["defined_twice"][1][0] == "ret")
        return Verdict(ok, (), dict(first_spelling=sa, second_spelling=sb, surround=sur, trace=trace), [f"ran{min(ran, 5)}"], nontrivial=ran >= 1)

    if shape.get("twice"):
        return run_twice

    def run(ctx):
        fa, LA = mk_safe(sa)
        fb, LB = mk_safe(sb)
        trace = []
        ok = True
        ok_known = True
        for name, mkarg in probes():
            a = mkarg()
            oa = full_outcome(lambda: fa.dispatch(a), LA)
            ob = full_outcome(lambda: fb.dispatch(a), LB)
            trace.append(dict(arg=name, a=oa, b=ob))
            if oa != ob:
                ok = False
                if not (KNOWN_ASYM in known_active and asym_applicable(fa, a) and asym_applicable(fb, a)):
                    ok_known = False
        ran = sum(1 for t in trace if t["a"][1][0] == "ret")
        kn = [(KNOWN_ASYM, ok_known)] if KNOWN_ASYM in known_active else []
        return Verdict(ok, kn, dict(spelling_a=sa, spelling_b=sb, surround=sur, trace=trace), [f"ran{min(ran, 5)}"], nontrivial=ran >= 1)

    return run


def gen_shapes(tier, seed):
    shapes = [dict(n=3, pair=list(p), surround=s) for p in PAIRS for s in SURROUND]
    # the two spellings in ONE function: a re-definition under an equivalent spelling replaces the earlier one
    shapes += [dict(n=3, pair=list(p), surround=s, twice=True) for p in PAIRS for s in ("none", "obj", "A|C")]
    return shapes, len(shapes), False


def explore_shape(shape, tier="quick", seed=0, budget_s=30, validate=0):
    return runner.explore_symbolic(make_world, make_run, shape, seed=seed,
                                   deadline=time.time() + budget_s, validate=validate, validate_mode="verdict")


def replay(rec):
    return runner.replay_record(sys.modules[__name__], rec)


def main(tier, seed):
    t0 = time.time()
    runner.assert_real_code()
    shapes, total, sampled = gen_shapes(tier, seed)
    kw = dict(tier=tier, seed=seed, budget_s=30 if tier == "quick" else 120, validate=1)
    results = runner.pmap("props.c15", "explore_shape", shapes, kw, chunksize=2)
    return runner.finish(
        PID, tier, seed, t0, results,
        bounds=dict(classes=3, spelling_pairs=len(PAIRS), surrounding_sets=len(SURROUND),
                    probes="instances of the 3 classes, object(), None; lists / dicts / literal values / classes where the annotation concerns them",
                    priorities="symbolic integers", hierarchy="every partial order (symbolic)"),
        rule="one state = one (spelling pair, surrounding method set) x class of (hierarchy, priorities); non-trivial = some probe ran a method",
        stubs=["SymMeta classes", "SymInt priorities"],
        dont_care=[],
        assumptions=["argument values for Literal / list / dict annotations are a small enumerated corpus (the symbolic-value part is C11's)"],
        shapes_total=total, shapes_sampled=sampled, mod=sys.modules[__name__],
    )
