"""C12 -- the specificity order is mirror-symmetric and matches subclassing.

Symbolic: subclass relation R over n harness classes, has-method booleans.
Enumerated: pairs of type terms (depth <= 1 quick, <= 2 thorough).
Oracle: mirror symmetry and reflexivity (differential, same model), closed-form laws of the statement.
"""

import itertools
import random
import time

import z3

from lib import runner
from symx.engine import Verdict
from symx.kit import build, term_str
from symx.world import World

PID = "C12"
CODE = {"LESS": -1, "MORE": 1, "SAME": 0, "NONE": 2}
NAME = {v: k for k, v in CODE.items()}
OPP = {-1: 1, 1: -1, 0: 0, 2: 2}
HOOKED = ("U", "I", "Ex", "Dep", "Lit", "tuple", "tupvar")  # constructors whose types carry their own __type_order__


def atom_index(t, n):
    if t[0] == "K":
        return t[1]
    if t[0] in ("obj", "any"):
        return n            # typing.Any counts as object, wherever it stands
    return None


def cord(W, i, j):
    """closed-form order of two class atoms as a z3 Int (codes above)"""
    if i == j:
        return z3.IntVal(0)
    # (two distinct classes that are subclasses of each other -- possible with protocols / __subclasshook__ -- are SAME)
    return z3.If(z3.And(W.rel(i, j), W.rel(j, i)), z3.IntVal(0),
                 z3.If(W.rel(i, j), z3.IntVal(-1), z3.If(W.rel(j, i), z3.IntVal(1), z3.IntVal(2))))


def merge_codes(cs):
    """z3 version of Order.merge"""
    all_same = z3.And([c == 0 for c in cs])
    le = z3.And([z3.Or(c == 0, c == -1) for c in cs])
    ge = z3.And([z3.Or(c == 0, c == 1) for c in cs])
    return z3.If(all_same, z3.IntVal(0), z3.If(le, z3.IntVal(-1), z3.If(ge, z3.IntVal(1), z3.IntVal(2))))


def has_ctor(t, ctors):
    return t[0] in ctors or any(isinstance(x, tuple) and has_ctor(x, ctors) for x in t[1:])


def expected(a, b, W):
    """z3 Int code the statement prescribes for typeorder(a, b), or None when it is silent"""
    n = W.n
    ia, ib = atom_index(a, n), atom_index(b, n)
    if ia is not None and ib is not None:
        return cord(W, ia, ib)
    if a == b and a[0] == "Dep":
        return None  # the very same object on both sides: covered by the reflexivity check
    if a == b:
        # two structurally equal spellings (built separately) of a type with structural equality
        return z3.IntVal(0)
    for g in ("list", "dict", "type"):
        origins = {"list": ("list", "typing.List"), "dict": ("dict", "typing.Dict"), "type": ("type",)}[g]
        if a[0] == g and b[0] == "raw" and b[1] in origins:
            return z3.IntVal(-1)
        if b[0] == g and a[0] == "raw" and a[1] in origins:
            return z3.IntVal(1)
        if a[0] == g and b[0] == g:
            sub = [expected(x, y, W) for x, y in zip(a[1:], b[1:])]
            if all(s is not None for s in sub):
                return merge_codes(sub)
            return None
    if a[0] in ("tuple", "tupvar") and b == ("raw", "tuple"):
        return z3.IntVal(-1)
    if b[0] in ("tuple", "tupvar") and a == ("raw", "tuple"):
        return z3.IntVal(1)
    if b[0] == "U" and a in b[1:]:
        return z3.IntVal(-1)
    if a[0] == "U" and b in a[1:]:
        return z3.IntVal(1)
    if a[0] == "I" and b in a[1:]:
        return z3.IntVal(-1)
    if b[0] == "I" and a in b[1:]:
        return z3.IntVal(1)
    if a[0] == "Dep" and b == a[1]:
        return z3.IntVal(-1)
    if b[0] == "Dep" and a == b[1]:
        return z3.IntVal(1)
    if a[0] == "Lit" and b == ("raw", type(a[1]).__name__) and all(type(v) is type(a[1]) for v in a[1:]):
        return z3.IntVal(-1)
    if b[0] == "Lit" and a == ("raw", type(b[1]).__name__) and all(type(v) is type(b[1]) for v in b[1:]):
        return z3.IntVal(1)
    return None


def implied(a, b, W, d):
    """one-sided consequences of the statement (conditional on the hierarchy): a dependent type is below
    its bound, hence below every superclass of its bound"""
    n = W.n
    out = []
    for x, y, want in ((a, b, -1), (b, a, 1)):
        if x[0] == "Dep" and atom_index(x[1], n) is not None and atom_index(y, n) is not None:
            out.append(z3.Implies(W.rel(atom_index(x[1], n), atom_index(y, n)), z3.BoolVal(d == want)))
    return z3.And(out) if out else z3.BoolVal(True)


def make_world(ex, shape, real):
    return World(ex, shape["n"], real=real, hm_names=("hm",), antisym=not shape.get("preorder"))


def totuple(x):
    return tuple(totuple(y) for y in x) if isinstance(x, list) else x


def make_run_late(W, shape):
    """the subclass relation changes while the process runs (ABC.register, the ordinary way of declaring a virtual subclass): whatever was
    compared before, the order afterwards coincides with subclassing as it is now.  Real ABCs, fresh per run; solver selectors choose the
    pair registered late, whether the classes were compared before, and whether a second registration follows."""
    import abc

    from ovld import typeorder

    def code(o):
        return CODE[o.name]

    def run(ctx):
        n = 3
        Ks = [abc.ABCMeta(f"L{i}", (), {}) for i in range(n)]
        pairs = [(i, j) for i in range(n) for j in range(n) if i != j]
        before = ctx.choose("compared_before", 2)
        p1 = pairs[ctx.choose("late_pair", len(pairs))]
        second = ctx.choose("second_registration", 2)
        p2 = pairs[ctx.choose("late_pair_2", len(pairs))] if second else None
        trace = []
        ok = True

        def sweep(label):
            nonlocal ok
            for i, j in pairs:
                d = code(typeorder(Ks[i], Ks[j]))
                sij, sji = issubclass(Ks[i], Ks[j]), issubclass(Ks[j], Ks[i])
                exp = 0 if (sij and sji) else -1 if sij else 1 if sji else 2
                if d != exp:
                    ok = False
                    trace.append(dict(after=label, pair=[f"L{i}", f"L{j}"], typeorder=NAME[d], subclassing=NAME[exp]))

        if before:
            sweep("nothing registered")
        for k, pr in enumerate([p1] + ([p2] if p2 else [])):
            i, j = pr
            if not issubclass(Ks[j], Ks[i]):       # (abc refuses to create a cycle)
                Ks[j].register(Ks[i])
            sweep(f"L{j}.register(L{i})")
        return Verdict(ok, (), dict(family="relation changes at run time", compared_before=bool(before), registrations=[list(p1)] + ([list(p2)] if p2 else []),
                                    disagreements=trace[:6]), ["late"], nontrivial=True)

    return run


def make_run(W, shape, known_active=None):
    from ovld import typeorder

    if shape.get("late"):
        return make_run_late(W, shape)
    if known_active is None:
        known_active = {e["id"]: e for e in runner.load_known(PID) if e.get("status") == "known"}
    a, b = totuple(shape["a"]), totuple(shape["b"])

    def code(o):
        return CODE[o.name]

    def run(ctx):
        cache = {}
        A, B = build(a, W, cache), build(b, W, cache)
        d1 = code(typeorder(A, B))
        d2 = code(typeorder(B, A))
        ra = code(typeorder(A, A))
        rb = code(typeorder(B, B))
        mirror = d2 == OPP[d1]
        refl = ra == 0 and rb == 0
        exp = expected(a, b, W)
        law = z3.And(z3.BoolVal(True) if exp is None else (exp == d1), implied(a, b, W, d1))
        exp2 = expected(b, a, W)
        law2 = z3.And(z3.BoolVal(True) if exp2 is None else (exp2 == d2), implied(b, a, W, d2))
        info = dict(a=term_str(a), b=term_str(b), ab=NAME[d1], ba=NAME[d2], aa=NAME[ra], bb=NAME[rb])
        known = []
        post = z3.And(z3.BoolVal(mirror and refl), law, law2)
        if not mirror and refl:
            # recorded mechanism: typeorder consults only the left operand's __type_order__ hook; when both
            # operands carry one, the two hooks disagree.  Excused only for the listed constructor pair AND
            # the listed pair of answers, and only if each answer is exactly what that side's hook returns.
            for kid, e in known_active.items():
                if e.get("kind") != "hook-disagreement":
                    continue
                # (tuple[T, ...] is normalised to a value-dependent type: it is a "Dependent" for the recorded constructor pairs)
                ca, cb = {"tupvar": "Dep"}.get(a[0], a[0]), {"tupvar": "Dep"}.get(b[0], b[0])
                fwd = [ca, cb] == e["ctors"] and [NAME[d1], NAME[d2]] in e["answers"]
                bwd = [cb, ca] == e["ctors"] and [NAME[d2], NAME[d1]] in e["answers"]
                if not (fwd or bwd):
                    continue
                hook1 = A.__type_order__(B) if hasattr(A, "__type_order__") else NotImplemented
                hook2 = B.__type_order__(A) if hasattr(B, "__type_order__") else NotImplemented
                explained = (hook1 is not NotImplemented and hook2 is not NotImplemented
                             and code(hook1) == d1 and code(hook2) == d2)
                # (with the mirror image broken, a law of the statement can hold in one direction at most)
                known.append((kid, z3.And(z3.BoolVal(bool(explained)), z3.Or(law, law2))))
        tags = [f"{NAME[d1]}/{NAME[d2]}"]
        return Verdict(post, known, info, tags, nontrivial=(d1 != 2))

    return run


def universe(n, depth):
    K = [("K", i) for i in range(n)]
    atoms = K + [("obj",)]
    t = list(atoms)
    pairs = list(itertools.combinations(K, 2))
    t += [("U", x, y) for x, y in pairs] + [("U", K[0], ("obj",))]
    if n >= 3:
        t.append(("U", K[0], K[1], K[2]))
    t += [("I", x, y) for x, y in pairs]
    t += [("Ex", K[0]), ("Ex", K[1]), ("SS", K[0]), ("SS", K[1]), ("HM", "hm")]
    t += [("list", K[0]), ("list", K[1]), ("list", ("obj",)), ("raw", "list"), ("list", ("any",)), ("dict", ("any",), K[0]), ("any",)]
    t += [("dict", K[0], K[1]), ("dict", K[1], K[0]), ("dict", K[0], K[0]), ("raw", "dict")]
    t += [("raw", "typing.List"), ("raw", "typing.Dict")]
    t += [("type", K[0]), ("type", K[1]), ("type", ("obj",))]
    t += [("Lit", 0), ("Lit", 1), ("Lit", 0, 1), ("Lit", "a"), ("raw", "int"), ("raw", "str")]
    t += [("Dep", K[0], 0), ("Dep", K[0], 1), ("Dep", K[1], 0), ("Dep", ("obj",), 0)]
    t += [("tuple", K[0], K[1]), ("tuple", K[1], K[0]), ("tuple", K[0]), ("raw", "tuple"), ("tupvar", K[0]), ("tupvar", ("obj",))]
    if depth >= 2:
        t += [("U", ("I", K[0], K[1]), K[2 % n]), ("I", ("U", K[0], K[1]), K[2 % n]), ("U", ("Ex", K[0]), K[1]),
              ("I", ("SS", K[0]), K[1]), ("list", ("list", K[0])), ("list", ("list", K[1])), ("list", ("U", K[0], K[1])),
              ("dict", K[0], ("list", K[1])), ("dict", K[1], ("list", K[0])), ("type", ("list", K[0])),
              ("type", ("list", K[1])), ("U", ("Dep", K[0], 0), K[1]), ("I", ("Dep", K[0], 0), ("Dep", K[0], 1)),
              ("tuple", ("U", K[0], K[1]), K[0]), ("tuple", K[0], ("list", K[1])), ("Ex", ("obj",)),
              ("U", ("list", K[0]), K[1]), ("I", ("HM", "hm"), K[0]), ("U", ("Lit", 0), ("Lit", 1)),
              ("Dep", ("U", K[0], K[1]), 0)]
    return t


def gen_shapes(tier, seed):
    if tier == "quick":
        n, depth = 3, 1
    else:
        n, depth = 4, 2
    terms = universe(n, depth)
    shapes = [dict(n=n, a=a, b=b) for a, b in itertools.combinations_with_replacement(terms, 2)]
    # class / generic fragment again over a PREORDER: distinct classes may be subclasses of each other
    frag = [t for t in terms if t[0] in ("K", "obj", "list", "dict", "type", "raw")]
    shapes += [dict(n=n, a=a, b=b, preorder=True) for a, b in itertools.combinations_with_replacement(frag, 2)]
    shapes.append(dict(n=n, late=True, a=["obj"], b=["obj"]))
    return shapes, len(shapes), False


def explore_shape(shape, tier="quick", seed=0, budget_s=60, validate=0):
    return runner.explore_symbolic(make_world, make_run, shape, seed=seed,
                                   deadline=time.time() + budget_s, validate=validate)


def replay(rec):
    import sys

    return runner.replay_record(sys.modules[__name__], rec)


def main(tier, seed):
    t0 = time.time()
    runner.assert_real_code()
    shapes, total, sampled = gen_shapes(tier, seed)
    kw = dict(tier=tier, seed=seed, budget_s=60, validate=1)
    results = runner.pmap("props.c12", "explore_shape", shapes, kw, chunksize=8)
    return runner.finish(
        PID, tier, seed, t0, results,
        bounds=dict(classes=shapes[0]["n"], term_depth=1 if tier == "quick" else 2, terms=len(universe(shapes[0]["n"], 1 if tier == "quick" else 2)),
                    pairs=len(shapes), hierarchy="every partial order on the n classes (symbolic); has-method symbolic, inherited"),
        rule="one state = one (pair of type terms, class of hierarchies typeorder cannot distinguish); non-trivial = the pair is ordered",
        stubs=["SymMeta classes (issubclass/isinstance/hasattr answered by the solver)"],
        dont_care=["pairs for which the statement prescribes no answer are checked for mirror symmetry and reflexivity only",
                   "transitivity on the class/generic fragment follows from equality with the closed form over the transitive relation R"],
        assumptions=["Whatever excluded (statement)", "typeorder applied to normalised annotations (Literal -> Equals, tuple[...] -> ProductType)"],
        shapes_total=total, shapes_sampled=sampled, mod=__import__("sys").modules[__name__],
    )
