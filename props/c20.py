"""C20 -- each argument-type combination is resolved at most once between changes.

Symbolic: subclass relation R; answers of user class predicates, of a user type's __type_order__ /
__is_supertype__ hooks (solver variables, with call counters); priorities.
Enumerated: method sets (plain classes, class_check types, hook types; bodies return / call_next / recurse(other)).
Oracle: after a warm-up that touched each argument class once, a call that had succeeded consults no predicate,
no hook and no issubclass on the harness classes (the counter of solver consultations does not move); after a
registration the same holds again once re-warmed.
"""

import itertools
import random
import sys
import time

import z3

from lib import runner
from symx.engine import Verdict, current
from symx.kit import MethodSet, full_outcome
from symx.world import World

PID = "C20"


class CountInt(int):
    """concrete priority whose comparisons are counted: ranking candidates is part of resolving a combination"""

    count = [0]

    def _c(op):
        def f(self, other):
            CountInt.count[0] += 1
            return getattr(int, op)(self, other)
        return f

    __lt__ = _c("__lt__")
    __le__ = _c("__le__")
    __gt__ = _c("__gt__")
    __ge__ = _c("__ge__")
    __eq__ = _c("__eq__")
    __ne__ = _c("__ne__")
    __hash__ = int.__hash__


def make_world(ex, shape, real):
    W = World(ex, shape["n"], nprio=len(shape["methods"]) + 1, real=real)
    n = shape["n"]
    W.Q = [[ex.bool(f"pred{j}_{i}") for i in range(n + 1)] for j in range(2)]      # class_check predicates
    W.S = [ex.bool(f"hooksup_{i}") for i in range(n + 1)]                           # hook type: is_supertype(Ki)
    W.TO = [ex.int(f"hookord_{i}") for i in range(n + 3)]                           # hook type: order vs Ki / others
    W.count = dict(pred=0, hook=0, sub=0)
    return W


def idx_of(W, cls):
    i = getattr(cls, "_idx", None)
    if i is None:
        return W.n
    return i


_MS = {}


def specs(shape):
    out = []
    for m, md in enumerate(shape["methods"]):
        body = {"ret": f"return {m}", "next": f"return ({m}, call_next(x))",
                "rec": f"return ({m}, recurse(FW{m})) if x is not FW{m} else {m}",
                "fwd": f"return ({m}, call_next(FW{m})) if x is not FW{m} else {m}"}[md["kind"]]
        out.append(dict(pos=[("x", ("obj",), False)], body=body))
    out.append(dict(pos=[("x", ("obj",), False)], body="return 'late'"))
    return out


def make_run(W, shape, known_active=None):
    from ovld import Ovld, class_check
    from ovld.mro import Order

    n = shape["n"]
    methods = shape["methods"]
    M = len(methods)
    key = repr([md["kind"] for md in methods])
    ms = _MS.get(key)
    if ms is None:
        ms = _MS[key] = MethodSet(specs(shape))
    CH = [0, 1, n]

    def inst(c):
        return W.inst[c] if c != n else object()

    def run(ctx):
        cnt = W.count
        cnt.update(pred=0, hook=0)
        consult0 = [0]

        def mkpred(j):
            def pred(cls):
                cnt["pred"] += 1
                return ctx.decide(W.Q[j][idx_of(W, cls)]) if isinstance(cls, type) else False
            pred.__name__ = f"pred{j}"
            return pred

        class HookMeta(type):
            def __type_order__(cls, other):
                cnt["hook"] += 1
                i = idx_of(W, other) if isinstance(other, type) and getattr(other, "_idx", None) is not None else (
                    W.n if other is object else W.n + 1 + (hash(str(other)) % 2))
                k = ctx.choose(f"hookord_{i}", 4)
                return [Order.LESS, Order.MORE, Order.NONE, NotImplemented][k]

            def __is_supertype__(cls, other):
                cnt["hook"] += 1
                if isinstance(other, type) and (getattr(other, "_idx", None) is not None or other is object):
                    return ctx.decide(W.S[idx_of(W, other)])
                return False

        Hook = HookMeta("Hook", (), {})
        types = []
        for md in methods:
            t = md["t"]
            if t[0] == "K":
                types.append(W.K[t[1]])
            elif t[0] == "obj":
                types.append(object)
            elif t[0] == "pred":
                types.append(class_check(mkpred(t[1])))
            elif t[0] == "hook":
                types.append(Hook)
            elif t[0] == "deppred":
                # a value-dependent type whose BOUND is a user class predicate (default codegen path)
                from ovld import Dependent

                def cond(x):
                    return bool(getattr(x, "flag", True))
                types.append(Dependent[class_check(mkpred(t[1])), cond])
            elif t[0] in ("upred", "udeppred"):
                # a user class predicate inside a union that also has a value-dependent member: the union is checked at run time by generated
                # code, which must not ask the predicate again for a class it has already seen
                from ovld import Dependent
                from ovld.types import Union as OUnion

                def cond2(x):
                    return bool(getattr(x, "flag", True))
                # (the other members are ordinary concrete classes: an isinstance test against a harness class would itself count as a consultation)
                if t[0] == "upred":
                    types.append(OUnion[class_check(mkpred(t[1])), Dependent[object, cond2]])
                else:
                    types.append(OUnion[Dependent[class_check(mkpred(t[1])), cond2], int])
        extra = {f"FW{m}": inst(md["fw"]) for m, md in enumerate(methods) if md["kind"] in ("rec", "fwd")}
        hs, LOG, ns = ms.instantiate(W, extra=extra)
        ov = Ovld()
        for m in range(M):
            hs[m].__annotations__ = {"x": types[m]}
            ov.register(hs[m], priority=(CountInt(0) if shape.get('equal_prio') else W.prio[m]))

        def total():
            return cnt["pred"] + cnt["hook"] + ctx.consults + CountInt.count[0]

        trace = []
        ok = True

        parent = ov
        if shape.get("linked"):
            # the calls go to a linked variant; its parent is used for the first time later (not a change of the variant's methods)
            ov = parent.copy(linkback=True)
            ov.ensure_compiled()          # (a copy has no public function object before its first build)
        warm = {}

        def phase(label, warmup=True):
            nonlocal ok
            if warmup:
                for c in CH:
                    warm[c] = full_outcome(lambda: ov.dispatch(inst(c)), LOG)
            for c in reversed(CH):
                before = total()
                again = full_outcome(lambda: ov.dispatch(inst(c)), LOG)
                delta = total() - before
                trace.append(dict(phase=label, cls=c, warm=warm[c], again=again, recomputation=delta))
                if warm[c][1][0] == "ret":
                    if delta != 0 or again != warm[c]:
                        ok = False

        phase("initial")
        if shape.get("introspect"):
            # looking at the function (its signature, its documentation, its listing of methods) is not a change of its methods
            import inspect

            try:
                str(inspect.signature(ov.dispatch))
                ov.dispatch.__signature__.parameters  # noqa: B018
                ov.dispatch.__doc__  # noqa: B018
            except Exception:  # noqa: BLE001
                pass
            phase("after inspect.signature / __doc__", warmup=False)
        if shape.get("derive"):
            # an unlinked copy is derived from the warm function and used (its first build locks the function it derives from):
            # not a change of the function's own methods
            derived = parent.copy()
            for c in CH:
                full_outcome(lambda: derived(inst(c)), LOG)
            phase("after an unlinked copy was built and used", warmup=False)
        if shape.get("linked"):
            for c in CH:
                full_outcome(lambda: parent.dispatch(inst(c)), LOG)      # first use of the parent: builds the parent only
            phase("after the parent's first use", warmup=False)
        hs[M].__annotations__ = {"x": W.K[2] if n > 2 else object}
        if shape.get("derive"):
            # (the function is locked by its copy now) the new method goes to the copy: again no change of the function's own methods
            derived.register(hs[M], priority=(CountInt(0) if shape.get('equal_prio') else W.prio[M]))
            for c in CH:
                full_outcome(lambda: derived(inst(c)), LOG)
            phase("after a registration on the copy", warmup=False)
        else:
            parent.register(hs[M], priority=(CountInt(0) if shape.get('equal_prio') else W.prio[M]))
            phase("after register")
        if shape.get("wide"):
            # many more argument classes than any bounded table would keep: 140 fresh subclasses of K0, each handled once, then the first ones again
            subs = [type(W.K[0])(f"K0s{i}", (W.K[0],), {}) for i in range(140)] if hasattr(W.K[0], "_idx") else []
            insts = [c() for c in subs]
            firsts = [full_outcome(lambda: ov.dispatch(a), LOG) for a in insts]
            before = total()
            again = [full_outcome(lambda: ov.dispatch(a), LOG) for a in insts[:12]]
            delta = total() - before
            trace.append(dict(phase="140 classes, first 12 again", cls=0, warm=firsts[0] if firsts else None, again=again[0] if again else None, recomputation=delta))
            if firsts and all(f_[1][0] == "ret" for f_ in firsts[:12]) and (delta != 0 or again != firsts[:12]):
                ok = False
        succ = sum(1 for t in trace if t["warm"] and t["warm"][1][0] == "ret")
        return Verdict(ok, (), dict(trace=trace), [f"succ{succ}"], nontrivial=succ >= 2)

    return run


def gen_shapes(tier, seed):
    rng = random.Random(seed)
    n = 3
    T = [("K", 0), ("K", 1), ("K", 2), ("obj",), ("pred", 0), ("pred", 1), ("hook",), ("deppred", 0), ("deppred", 1), ("upred", 0), ("udeppred", 1)]
    kinds = ["ret", "next", "rec", "fwd"]
    allshapes = []
    for mt in itertools.product(T, repeat=3):
        if not any(t[0] in ("pred", "hook", "deppred", "upred", "udeppred") for t in mt):
            continue
        for ks in itertools.product(kinds, repeat=3):
            md = [dict(t=list(t), kind=k) for t, k in zip(mt, ks)]
            for m in md:
                if m["kind"] in ("rec", "fwd"):
                    m["fw"] = rng.choice([0, 1, n])
            allshapes.append(dict(n=n, methods=md))
    total = len(allshapes)
    rng.shuffle(allshapes)
    out = allshapes[: 160 if tier == "quick" else 640]
    for i, sh in enumerate(out):
        sh["equal_prio"] = tier == "quick"
        sh["linked"] = i % 4 == 3
        sh["wide"] = i % 8 == 1
        sh["derive"] = i % 4 == 2
        sh["introspect"] = i % 4 == 0
    return out, total, True


def explore_shape(shape, tier="quick", seed=0, budget_s=30, validate=0):
    return runner.explore_symbolic(make_world, make_run, shape, seed=seed,
                                   deadline=time.time() + budget_s, validate=validate)


def replay(rec):
    return runner.replay_record(sys.modules[__name__], rec)


def main(tier, seed):
    t0 = time.time()
    runner.assert_real_code()
    shapes, total, sampled = gen_shapes(tier, seed)
    kw = dict(tier=tier, seed=seed, budget_s=4 if tier == "quick" else 25, validate=0)
    results = runner.pmap("props.c20", "explore_shape", shapes, kw, chunksize=2)
    return runner.finish(
        PID, tier, seed, t0, results,
        bounds=dict(classes=3, methods="3 (+1 registered after the first phase)", positions=1,
                    annotations="harness classes, object, two class_check(predicate) types, Dependent[class_check(predicate), condition], one user type with __type_order__/__is_supertype__ hooks",
                    bodies="return | call_next(x) | recurse(other) | call_next(other)", calls="warm-up of K0, K1, object(); then each again; register; both phases again; every 4th method set: the calls go to a linkback copy, "
                    "whose parent is used for the first time between the phases (no re-warm allowed) and receives the registration; every 4th: inspect.signature / __doc__ of the function are read between the phases; every 4th: an unlinked copy() is built and used between the phases; every 8th: 140 further "
                    "subclasses of K0 are handled once each and the first 12 called again",
                    hook_answers="predicates: one solver boolean per (predicate, class); hooks: supertype boolean per class, order chosen among "
                                 "LESS/MORE/NONE/NotImplemented per class",
                    priorities="all equal (quick) / symbolic integers (thorough)",
                    budget="per method set: 4 s (quick) / 25 s (thorough) of path classes; exhaustion is reported per shape"),
        rule="one state = one method set x class of (hierarchy, predicate answers, hook answers, priorities); non-trivial = >=2 successful warm calls",
        stubs=["SymMeta classes with a consultation counter", "counting user predicates and hooks answering from solver variables", "SymInt priorities"],
        dont_care=["calls whose warm-up ended in an error (the statement covers successful combinations only)"],
        assumptions=["comparisons of priorities are counted as resolution work as well (counting int subclass in the quick tier, solver consultations in the thorough tier)"],
        shapes_total=total, shapes_sampled=sampled, mod=sys.modules[__name__],
    )
