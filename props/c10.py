"""C10 -- value-dependent methods run exactly when their condition holds.

Symbolic (CrossHair / z3): the argument values -- unbounded int, bool, str (len <= 3), pairs of ints.
Enumerated: method sets mixing Dependent[bound, predicate] and static methods (bounds int / bool / str / object,
priorities, one or two dispatched positions), arranged so that the if-chain, lookup-table and counting strategies of
the generated dispatcher are all reached.
Oracle: plain Python over the value (xh.gen._spec1 / _spec2) written from the documentation; predicates log the
values they are asked about and must never see a non-instance of their bound.
"""

import random
import sys

from lib import runner, xhrun
from xh import gen

PID = "C10"
# (the last ones return a truthy / falsy NON-bool: a condition holds when its result is true, whatever its type)
INT_PREDS = ["x > {a}", "x < {a}", "x % 2 == 0", "x == {a}", "x >= {a} and x < {b}", "x % 3 == 1", "x != {a}", "x + {a} > 2 * {b}", "x % 3", "x - {a}", "type(x) is int and x >= {a}", "type(x) is bool or x > {b}"]
STR_PREDS = ["len(x) > {c}", "x.startswith('a')", "x == 'ab'", "'b' in x", "x.endswith('c')", "len(x) == {c}", "len(x)"]
OBJ_PREDS = ["x == {a}", "x is None", "isinstance(x, int) and x > {a}", "isinstance(x, str) and len(x) > {c}", "type(x) is bool", "type(x) is float or x == {a}"]
BOOL_PREDS = ["x", "not x"]


KNOWN_SHIELD = "C10-declined-dependent-shields-dominated"


def _native_shield():
    """witness: A(x: Dependent[int, p], y: object), B(x: object, y: int), D(x: int, y: object); p false: A is as if absent, B and D are
    unordered -> ambiguity expected; the real function runs B (D stays ranked below the group A shares with B)"""
    from ovld import Dependent, Ovld

    def p(v):
        return v > 100

    def ma(x: Dependent[int, p], y: object):
        return "A"

    def mb(x: object, y: int):
        return "B"

    def md(x: int, y: object):
        return "D"
    with_a, without_a = Ovld(), Ovld()
    for fn in (ma, mb, md):
        with_a.register(fn)
    for fn in (mb, md):
        without_a.register(fn)

    def out(f):
        try:
            return f(5, 5)
        except TypeError as e:
            return "AMB" if str(e).startswith("Ambiguous") else "TypeError"
    return out(without_a) == "AMB" and out(with_a) != "AMB"


NATIVE_WITNESSES = {"c10_declined_dependent_shields": _native_shield}


def gen_harnesses(tier, seed):
    rng = random.Random(seed)
    out = []
    N = 90 if tier == "quick" else 600

    def pred(bound):
        pool = {"int": INT_PREDS, "str": STR_PREDS, "object": OBJ_PREDS, "bool": BOOL_PREDS}[bound]
        a = rng.randint(-3, 12)
        return rng.choice(pool).format(a=a, b=a + rng.randint(1, 6), c=rng.randint(0, 2))

    for i in range(N):
        k = rng.choice((2, 3, 3, 4, 5))
        methods = []
        ndep = 0
        for j in range(k):
            if rng.random() < 0.6 or (j == k - 1 and ndep == 0):
                b = rng.choice(("int", "int", "int", "str", "object", "bool"))
                methods.append(dict(kind="dep", bound=b, pred=pred(b), prio=rng.choice((0, 0, 0, 1, -1))))
                ndep += 1
            else:
                b = rng.choice(("int", "bool", "str", "object"))
                p = rng.choice((0, 0, 0, 1, -1))
                if any(m["kind"] == "static" and m["bound"] == b and m["prio"] == p for m in methods):
                    continue
                methods.append(dict(kind="static", bound=b, prio=p))
        checks = [("int", "int", None), ("bool", "bool", None), ("str", "str", "len(x) <= 3" if tier != "quick" else "len(x) <= 2")]
        src = gen.one_position_module(methods, [0, 1, 2, 11, 12, -3, 7, True, False, "a", "ab", "", "abc"], checks)
        out.append((f"c10_one_{i}", src, dict(family="one position", methods=methods)))
    U = 10 if tier == "quick" else 60
    for i in range(U):
        b, other = rng.choice((("int", "str"), ("str", "int"), ("int", "list"), ("str", "list")))
        methods = [dict(kind="depunion", bound=b, other=other, pred=pred(b), prio=0, double=(i % 3 == 2),
                        plain=("HasMethod['__len__']" if (i % 3 == 1 and b == "str") else None)), dict(kind="static", bound="object", prio=-1)]
        if rng.random() < 0.5:
            methods.append(dict(kind="static", bound=b, prio=-1 if rng.random() < 0.5 else 0))
        checks = [("int", "int", None), ("str", "str", "len(x) <= 2")]
        src = gen.one_position_module(methods, [0, 1, 2, 11, 12, -3, 7, True, "a", "ab", "", [1], []], checks, prelude="from ovld.types import HasMethod")
        out.append((f"c10_union_{i}", src, dict(family="dependent type inside a union", methods=methods)))
    # two unrelated static methods (abstract classes that both cover the value) below a dependent method: when the condition does not hold,
    # dispatch continues as if the dependent method were absent -- here: with the ambiguity error
    A = 6 if tier == "quick" else 30
    for i in range(A):
        b = ("int", "int", "bool")[i % 3]
        methods = [dict(kind="dep", bound=b, pred=pred(b), prio=0), dict(kind="static", bound="Integral", prio=0),
                   dict(kind="static", bound="Hashable", prio=0), dict(kind="static", bound="object", prio=-1)]
        if i % 2:
            methods.insert(1, dict(kind="dep", bound="int", pred=pred("int"), prio=1))
        checks = [("int", "int", None), ("bool", "bool", None), ("str", "str", "len(x) <= 2")]
        src = gen.one_position_module(methods, [0, 1, 2, 11, 12, -3, 7, True, False, "a", "ab", ""], checks,
                                      prelude="from numbers import Integral\nfrom collections.abc import Hashable")
        out.append((f"c10_ambstatic_{i}", src, dict(family="ambiguous static methods below a dependent one", methods=methods)))
    # the same parametrised condition under two different bounds: two distinct types (each method only for instances of its own bound)
    for i, nn in enumerate((1, 2, 3) if tier == "quick" else (0, 1, 2, 3, 4)):
        methods = [dict(kind="ann", ann=f"Dependent[str, Shorter[{nn}]]", bound="str", pred=f"isinstance(x, str) and len(x) < {nn}", prio=0),
                   dict(kind="ann", ann=f"Dependent[list, Shorter[{nn}]]", bound="list", pred=f"isinstance(x, list) and len(x) < {nn}", prio=0),
                   dict(kind="static", bound="object", prio=-1)]
        if i % 2:
            methods.reverse()
        checks = [("str", "str", "len(x) <= 3"), ("int", "int", None)]
        src = gen.one_position_module(methods, ["", "a", "ab", "abc", [], [1], [1, 2], [1, 2, 3], 0, (1,), ()], checks,
                                      prelude="from ovld import dependent_check\n\n@dependent_check\ndef Shorter(value: object, n):\n    return len(value) < n\n")
        out.append((f"c10_samecond_{i}", src, dict(family="one parametrised condition under two bounds", methods=methods)))
    from props.c11 import literal_union_modules, single_value_literal_module, tuple_element_modules
    out.extend((f"c10_{n_}", src_, dict(meta_)) for n_, src_, meta_ in literal_union_modules())
    n_, src_, meta_ = single_value_literal_module()
    out.append((f"c10_{n_}", src_, dict(meta_, family="a single value-dependent value that is not an int / str / float")))
    out.extend((f"c10_{n_}", src_, dict(meta_, family="value-dependent element types of tuple[...]")) for n_, src_, meta_ in tuple_element_modules())
    G = 8 if tier == "quick" else 40
    for i in range(G):
        a = rng.randint(-3, 10)
        p1 = rng.choice(INT_PREDS).format(a=a, b=a + 3)
        src = gen.mixed_group_module(p1, prio_dep=i % 2, mirrored=(i // 2) % 2 == 1)
        out.append((f"c10_mixed_{i}", src, dict(family="static and dependent method unordered in one rank (two positions)", p=p1)))
        if i < 4 and KNOWN_SHIELD not in runner.active_known_ids(PID):
            # (recorded finding: the modules of this family are generated only while the finding is not listed)
            src = gen.mixed_group_module(p1, prio_dep=i % 2, mirrored=(i // 2) % 2 == 1, dominated=True)
            out.append((f"c10_mixed_dominated_{i}", src, dict(family="a method dominated only by a declined dependent method", p=p1)))
    M = 16 if tier == "quick" else 120
    for i in range(M):
        a, b = rng.randint(-3, 10), rng.randint(-3, 10)
        p1 = rng.choice(INT_PREDS).format(a=a, b=a + 3)
        p2 = rng.choice(INT_PREDS).format(a=b, b=b + 2)
        prio = rng.choice(((0, 0, 0), (0, 0, 0), (1, 0, 0), (0, 0, 1), (0, 1, -1)))
        src = gen.two_position_module(p1, p2, prio)
        out.append((f"c10_two_{i}", src, dict(family="two positions", p1=p1, p2=p2, prio=prio)))
    return out


def replay(rec):
    """re-run the stored counterexample natively against the stored harness source"""
    import os
    import tempfile

    from xh import driver

    d = tempfile.mkdtemp(prefix="ovld-xh-replay-")
    try:
        path = os.path.join(d, rec["module"] + ".py")
        with open(path, "w") as fh:
            fh.write(rec["harness_source"])
        bad, detail = driver.replay_native(path, rec["call"])
        print("native:", rec["call"], "->", detail)
        return bool(bad)
    finally:
        import shutil

        shutil.rmtree(d, ignore_errors=True)


def main(tier, seed):
    hs = gen_harnesses(tier, seed)
    return xhrun.main(
        PID, tier, seed, hs,
        bounds=dict(values="int: unbounded; bool; str: len <= %d; pairs of ints" % (2 if tier == "quick" else 3),
                    method_sets="%d random one-position sets (2-5 methods over int/bool/str/object, priorities -1..1) + %d two-position sets" % (
                        sum(1 for h in hs if h[2]["family"] == "one position"), sum(1 for h in hs if h[2]["family"] == "two positions")),
                    predicates=INT_PREDS + STR_PREDS + OBJ_PREDS + BOOL_PREDS),
        rule="one state = one check condition confirmed over all paths by CrossHair; non-trivial = a reachability twin for which CrossHair "
             "produced a witness input (the method / the ambiguity is reachable)",
        dont_care=[],
        assumptions=["dispatchers are built and every argument-type tuple resolved natively at import (CrossHair only executes warm code)",
                     "CrossHair's confirmations are trusted; its counterexamples are replayed natively"],
        mod=sys.modules[__name__],
    )
