"""C19 -- concurrent calls behave like sequential calls.

Symbolic: the pre-emption points -- thread A is pre-empted when the kappa1-th ovld source line it executes is about
to run and thread B then runs (to completion, or, with two pre-emptions, until its kappa2-th line, after which A runs
to completion and B resumes).  kappa1 / kappa2 are solver integers enumerated to exhaustion (plus "never").
Real threading.Thread objects run under a baton so that exactly one is runnable; scheduling points are LINE events of
sys.monitoring restricted to ovld files.
Enumerated: scenarios -- two first calls (equal / different argument types), two cache misses on a built function,
a call racing a call_next chain, a call racing resolve().
Oracle: each thread's outcome equals its outcome alone on a fresh function; afterwards every probe equals the
sequentially used function.
"""

import sys
import threading
import time

import z3

from lib import runner
from symx import fault
from symx.engine import Verdict
from symx.kit import MethodSet, full_outcome
from symx.world import World

PID = "C19"
MAXK = 20000


def make_world(ex, shape, real):
    return World(ex, 3, nprio=0, real=real)


_MS = MethodSet([
    dict(pos=[("x", ("K", 0), False)], body="return (0, call_next(x))"),
    dict(pos=[("x", ("K", 1), False)], body="return 1"),
    dict(pos=[("x", ("obj",), False)], body="return 2"),
    dict(pos=[("x", ("Dep", ("K", 1), 3), False)], body="return (3, call_next(x))"),
    dict(pos=[("x", ("raw", "list"), False)], body="return [recurse(a) for a in x]"),
    dict(pos=[("x", ("K", 2), False)], body="return 5"),
    dict(pos=[("x", ("raw", "list"), False)], body="return (6, call_next(x[0]))"),     # call_next with another argument type
    dict(pos=[("x", ("K", 0), False)], kw=[("k", ("obj",), True), ("j", ("obj",), True)], body="return (7, k, j)"),   # optional keyword-only parameters
    dict(pos=[("x", ("obj",), False)], kw=[("k", ("obj",), True)], body="return (8, k)"),
    dict(pos=[("x", ("Ex", ("K", 0)), False)], body="return 9"),        # a class-check type (Exactly[K0]): one handler object asked by both threads
    dict(pos=[("x", ("SS", ("K", 0)), False)], body="return 10"),
])


class Baton:
    """exactly one controlled thread is runnable; a thread that stops making progress while it holds the turn (it
    blocks on a lock held by the other) loses the turn, as it would under a real scheduler"""

    def __init__(self):
        self.cv = threading.Condition()
        self.turn = 0
        self.done = [False, False]
        self.progress = [0, 0]
        self.blocked = [False, False]

    def wait_turn(self, me, watch=False, timeout=60):
        with self.cv:
            t0 = time.time()
            last = self.progress[1 - me]
            while self.turn != me:
                self.cv.wait(0.25)
                if self.turn == me:
                    break
                if watch and not self.done[1 - me]:
                    now = self.progress[1 - me]
                    if now == last:
                        self.blocked[1 - me] = True   # the other thread is stuck (waiting for a lock we hold)
                        self.turn = me
                        self.cv.notify_all()
                        break
                    last = now
                if time.time() - t0 > timeout:
                    raise TimeoutError("scheduler hang")

    def give(self, to):
        with self.cv:
            self.turn = to
            self.cv.notify_all()

    def finish(self, me):
        with self.cv:
            self.done[me] = True
            other = 1 - me
            if not self.done[other]:
                self.turn = other
            self.cv.notify_all()


class WatchedLock:
    """stands in for the function's build lock (if it has one): same semantics as threading.RLock, but a thread that
    would block tells the baton first, so the scheduler hands the turn back immediately (no timing heuristics)"""

    def __init__(self, baton, index_of):
        self.lock = threading.RLock()
        self.baton = baton
        self.index_of = index_of
        self.releases = 0
        self.depth = 0

    def acquire(self, blocking=True, timeout=-1):
        if self.lock.acquire(False):
            self.depth += 1
            return True
        if not blocking:
            return False
        i = self.index_of()
        if i is not None:
            self.baton.blocked[i] = True
            self.baton.give(1 - i)
        self.lock.acquire()
        self.depth += 1
        if i is not None:
            self.baton.wait_turn(i)
        return True

    def release(self):
        self.depth -= 1
        free = self.depth == 0
        self.lock.release()
        if free:
            self.releases += 1           # (the lock is re-entrant: only the outermost release frees it)

    __enter__ = acquire

    def __exit__(self, *a):
        self.release()


def make_run(W, shape, known_active=None, replay_info=None):
    from ovld import Ovld

    if known_active is None:
        known_active = runner.active_known_ids(PID)
    ex = W.ex
    k1v = ex.int("kappa1")
    lo, hi = shape.get("krange", (1, MAXK))
    ex.s.add(k1v >= lo, k1v <= hi)
    waiter = shape.get("family") == "waiter"
    if waiter:
        # B is made to wait for the build lock while A builds; after A has released it, A is pre-empted at its kappa2-th line, B (which now
        # owns the lock) runs until its kappa3-th line, then A runs to completion, then B
        k2w = ex.int("kappa2")
        k3w = ex.int("kappa3")
        ex.s.add(k2w >= shape["k2range"][0], k2w <= shape["k2range"][1], k3w >= 1, k3w <= shape.get("k3max", MAXK))
        k2step = shape.get("k2step", 1)
        if k2step > 1:
            ex.s.add(z3.Or(k2w % k2step == 0, k2w == shape["k2range"][1]))
        k3step = shape.get("k3step", 1)
        if k3step > 1:
            ex.s.add(z3.Or(k3w % k3step == 0, k3w == shape.get("k3max", MAXK)))
    two = shape.get("preemptions", 1) == 2
    if two:
        k2v = ex.int("kappa2")
        ex.s.add(k2v >= 1, k2v <= shape.get("k2max", MAXK))
    for i in range(3):
        for j in range(3):
            if i != j:
                ex.s.add(W.R[i][j] == z3.BoolVal((i, j) == (0, 1)))   # fixed hierarchy: K0 < K1, K2 apart

    def mkarg(c, flag=False):
        if c == 3:
            return object()
        if c == 4:
            a = W.K[0]()
            a.flag = True
            return [a, [W.K[1]()]]
        if c == 5:
            return [W.K[0]()]
        a = W.K[c]()
        a.flag = flag
        return a

    PROBES = [(0, False), (1, False), (1, True), (2, False), (3, False), (4, False)]
    methods = shape["methods"]

    def build():
        hs, LOG, ns = _MS.instantiate(W)
        ov = Ovld()
        for m in methods:
            ov.register(hs[m])
        return ov, LOG

    def op(ov, spec):
        if spec[0] == "seq":
            parts = [op(ov, sp) for sp in spec[1]]

            def seq():
                out = []
                for p_ in parts:
                    try:
                        out.append(p_())
                    except TypeError as e:
                        out.append("TypeError:" + str(e)[:40])
                return out
            return seq
        if spec[0] == "callkw":
            _, c, f, kwargs = spec
            a = mkarg(c, f)
            return lambda: ov.dispatch(a, **kwargs)
        kind, c, f = spec
        a = mkarg(c, f)
        if kind == "call":
            return lambda: ov.dispatch(a)
        if kind == "resolve":
            def r():
                h = ov.resolve(a)
                nm = getattr(h, "__name__", repr(h))
                return "specialized" if "specialized_dispatch" in nm else nm[nm.index("["):]
            return r
        raise ValueError(kind)

    def alone(spec):
        ov, LOG = build()
        for c, f in shape.get("warm", []):
            full_outcome(lambda: ov.dispatch(mkarg(c, f)), LOG)
        return full_outcome(op(ov, spec), LOG)

    refcache = {}

    def run(ctx):
        k1 = ctx.value(k1v).as_long()
        k2 = ctx.value(k2v).as_long() if two else None
        ov, LOG = build()
        for c, f in shape.get("warm", []):
            full_outcome(lambda: ov.dispatch(mkarg(c, f)), LOG)
        baton = Baton()
        idents = [None, None]
        counts = [0, 0]
        switched = [None, None]
        results = [None, None]
        specs = [shape["a"], shape["b"]]
        ops = [op(ov, specs[0]), op(ov, specs[1])]
        at = None
        if replay_info and replay_info.get("switch_at"):
            at = replay_info["switch_at"]
        seen = {}

        def hook(code, lineno):
            me = threading.current_thread()     # (thread idents are reused once a thread has exited: compare objects)
            i = 0 if me is idents[0] else 1 if me is idents[1] else None
            if i is None:
                return
            baton.progress[i] += 1
            if baton.turn != i:
                baton.wait_turn(i)          # (a thread that was blocked on a lock wakes up: it runs only on its turn)
            if waiter:
                return waiter_hook(i, code, lineno)
            if i == 0 and switched[0] is None:
                counts[0] += 1
                loc = f"{code.co_filename.split('/')[-1] if not code.co_filename.startswith('<ovld') else '<generated>'}:{lineno} in {code.co_name.split('[')[0]}"
                occ = seen[loc] = seen.get(loc, 0) + 1
                hit = (counts[0] == k1) if at is None else (loc == at[0] and occ == at[1])
                if hit and not baton.done[1]:
                    switched[0] = (loc, occ)
                    baton.give(1)
                    baton.wait_turn(0, watch=True)
            elif i == 1 and two and switched[1] is None and switched[0] is not None:
                counts[1] += 1
                if counts[1] == k2 and not baton.done[0]:
                    switched[1] = counts[1]
                    baton.give(0)
                    baton.wait_turn(1, watch=True)

        wst = dict(phase=0, c2=0, c3=0, k2=None, k3=None, sw2=None, sw3=None)
        if waiter:
            wst["k2"] = ctx.value(k2w).as_long()
            wst["k3"] = ctx.value(k3w).as_long()

        def waiter_hook(i, code, lineno):
            lock = getattr(ov, "_build_lock", None)
            if i == 0:
                if wst["phase"] == 0:
                    counts[0] += 1
                    if counts[0] == k1 and not baton.done[1]:
                        # B starts now; it will block on the build lock A holds (or, if there is no lock / A does not hold it, run on)
                        wst["phase"] = 1
                        switched[0] = ("waiter", counts[0])
                        wst["rel0"] = lock.releases if isinstance(lock, WatchedLock) else 0
                        baton.give(1)
                        baton.wait_turn(0, watch=True)
                elif wst["phase"] == 1 and baton.blocked[1] and isinstance(lock, WatchedLock) and lock.releases > wst["rel0"] and not baton.done[1]:
                    wst["c2"] += 1
                    if wst["c2"] == wst["k2"]:
                        wst["phase"] = 2
                        wst["sw2"] = wst["c2"]
                        baton.give(1)
                        baton.wait_turn(0, watch=True)
            elif i == 1 and wst["phase"] == 2 and not baton.done[0]:
                wst["c3"] += 1
                if wst["c3"] == wst["k3"]:
                    wst["phase"] = 3
                    wst["sw3"] = wst["c3"]
                    baton.give(0)
                    baton.wait_turn(1, watch=True)

        if hasattr(ov, "_build_lock"):
            ov._build_lock = WatchedLock(baton, lambda: 0 if threading.current_thread() is idents[0] else 1 if threading.current_thread() is idents[1] else None)

        def body(i):
            try:
                baton.wait_turn(i)
                try:
                    r = ops[i]()
                    results[i] = ["ret", repr(r)]
                except TypeError as e:
                    msg = str(e)
                    results[i] = ["AMB"] if msg.startswith("Ambiguous") else ["NOM"] if msg.startswith("No method") else ["EXC", "TypeError:" + msg[:80]]
                except BaseException as e:  # noqa: BLE001
                    results[i] = ["EXC", type(e).__name__ + ":" + str(e)[:80]]
            finally:
                baton.finish(i)

        ta = threading.Thread(target=body, args=(0,), daemon=True)
        tb = threading.Thread(target=body, args=(1,), daemon=True)
        idents[0], idents[1] = ta, tb
        hang = False
        with fault.Armed(hook):
            ta.start()
            tb.start()
            ta.join(30)
            tb.join(30)
            hang = ta.is_alive() or tb.is_alive()
        # path condition: which schedule this was
        if switched[0] is not None:
            ctx.pc.append(k1v == k1)
        else:
            ctx.pc.append(k1v > counts[0])
        if waiter:
            if wst["sw2"] is not None:
                ctx.pc.append(k2w == wst["k2"])
                if wst["sw3"] is not None:
                    ctx.pc.append(k3w == wst["k3"])
                else:
                    ctx.pc.append(k3w > wst["c3"])
            else:
                ctx.pc.append(k2w > wst["c2"])
        if two:
            if switched[1] is not None:
                ctx.pc.append(k2v == k2)
            elif switched[0] is not None:
                ctx.pc.append(k2v > counts[1])
        ctx.literals += 1
        after = [full_outcome(lambda: ov.dispatch(mkarg(c, f)), LOG) for c, f in PROBES]
        if "exp" not in refcache:
            # the solitary outcomes and the sequential after-state do not depend on the schedule (the hierarchy is fixed):
            # computed once per scenario
            refcache["exp"] = [alone(specs[0])[1], alone(specs[1])[1]]
            ref, LOGr = build()
            for c, f in shape.get("warm", []):
                full_outcome(lambda: ref.dispatch(mkarg(c, f)), LOGr)
            full_outcome(op(ref, specs[0]), LOGr)
            full_outcome(op(ref, specs[1]), LOGr)
            refcache["after"] = [full_outcome(lambda: ref.dispatch(mkarg(c, f)), LOGr) for c, f in PROBES]
        exp, exp_after = refcache["exp"], refcache["after"]
        ok = (not hang) and results == exp and after == exp_after
        info = dict(scenario=shape["name"], switch_at=list(switched[0]) if switched[0] else None, second_switch=switched[1],
                    waiter=dict(a_lines_after_release=wst["c2"], a_preempted_at=wst["sw2"], b_lines=wst["c3"], b_preempted_at=wst["sw3"]) if waiter else None,
                    results=results, alone=exp if results != exp else None, b_blocked_on_lock=baton.blocked[1], probes_after=after if after != exp_after else "as sequential",
                    sequential=exp_after if after != exp_after else None, hang=hang, _lines=counts)
        if waiter:
            return Verdict(ok, (), info, ["handover" if wst["sw2"] else "no-handover"], nontrivial=wst["sw2"] is not None)
        return Verdict(ok, (), info, ["switched" if switched[0] else "sequential"], nontrivial=switched[0] is not None)

    return run


SCEN = [
    dict(name="first-first-same", methods=[0, 1, 2, 3], a=["call", 0, False], b=["call", 0, False]),
    dict(name="first-first-different", methods=[0, 1, 2, 3], a=["call", 0, False], b=["call", 3, False]),
    dict(name="first-first-dependent", methods=[2, 1, 0, 3], a=["call", 1, True], b=["call", 2, False]),
    dict(name="miss-miss-same", methods=[0, 1, 2, 3], warm=[[3, False]], a=["call", 0, False], b=["call", 0, False]),
    dict(name="miss-miss-different", methods=[0, 1, 2, 3, 5], warm=[[3, False]], a=["call", 0, False], b=["call", 2, False]),
    dict(name="call-vs-chain", methods=[0, 1, 2, 3], warm=[[3, False]], a=["call", 1, True], b=["call", 0, False]),
    dict(name="call-vs-resolve", methods=[0, 1, 2, 3], a=["resolve", 0, False], b=["call", 0, False]),
    dict(name="resolve-vs-call-built", methods=[4, 0, 2, 3], warm=[[3, False]], a=["call", 4, False], b=["resolve", 1, False]),
    dict(name="miss-vs-call_next-other-type", methods=[0, 1, 2, 6], warm=[[3, False]], a=["call", 0, False], b=["call", 5, False]),
    # optional keyword-only arguments: each call's own keywords reach its method (two first calls; two calls on a built function)
    dict(name="keywords-first-first", methods=[7, 8], a=["callkw", 0, False, {"k": "A"}], b=["callkw", 0, False, {"k": "B", "j": "J"}]),
    dict(name="keywords-built", methods=[7, 8], warm=[[3, False]], a=["callkw", 0, False, {"k": "A", "j": "I"}], b=["callkw", 3, False, {"k": "B"}]),
    # two cache misses for DIFFERENT classes on a class-check annotation
    dict(name="miss-miss-classcheck", methods=[9, 10, 2], warm=[[3, False]], a=["call", 0, False], b=["call", 2, False]),
    dict(name="first-vs-call_next-other-type", methods=[0, 1, 2, 6], a=["call", 0, False], b=["call", 5, False]),
]


WAITER = [
    dict(name="waiter-first-then-recursive", family="waiter", methods=[4, 0, 1, 2, 3], a=["seq", [["call", 0, False], ["call", 4, False]]],
         b=["call", 0, False], krange=[300, 300]),
]


def count_waiter_lines(shape):
    from symx.engine import Explorer

    sh = dict(shape, k2range=[1, MAXK])
    ex = Explorer(forced={"kappa2": MAXK - 1, "kappa3": MAXK})
    W = make_world(ex, sh, False)
    st, c = ex.explore(make_run(W, sh), max_paths=1)
    return st["samples"][0]["waiter"]["a_lines_after_release"]


def count_lines(shape):
    from symx.engine import Explorer

    ex = Explorer(forced={"kappa1": MAXK})
    sh = dict(shape, krange=(MAXK, MAXK), preemptions=1)
    W = make_world(ex, sh, False)
    st, c = ex.explore(make_run(W, sh), max_paths=1)
    return st["samples"][0]["_lines"][0]


def gen_shapes(tier, seed):
    shapes = []
    scen = SCEN if tier != "quick" else [SCEN[i] for i in (0, 1, 4, 5, 6, 8, 9, 10, 11)]
    for s in scen:
        n = count_lines(s)
        chunks = 12 if tier == "quick" else 32
        step = max(1, (n + chunks - 1) // chunks)
        lo = 1
        while lo <= n:
            hi = min(n, lo + step - 1)
            shapes.append(dict(s, krange=[lo, hi if hi < n else MAXK], preemptions=1))
            lo = hi + 1
    # hand-over of the build lock: B waits for the lock while A builds; after the release A is pre-empted at every k2step-th line, B at
    # every k3step-th of its lines
    for w in WAITER:
        step = 10 if tier == "quick" else 3
        n2 = count_waiter_lines(w)
        chunks = 16 if tier == "quick" else 64
        size = max(step, ((n2 + chunks - 1) // chunks + step - 1) // step * step)
        lo = 1
        while lo <= n2:
            hi = lo + size - 1
            shapes.append(dict(w, k2range=[lo, hi if hi < n2 else MAXK], k2step=step, k3step=step))
            lo = hi + 1
    if tier != "quick":
        # two pre-emptions on a reduced set of first switch points (every 7th line), second switch anywhere in B
        for s in (SCEN[0], SCEN[4]):
            n = count_lines(s)
            for lo in range(7, n, 200):
                shapes.append(dict(s, krange=[lo, lo], preemptions=2))
    return shapes, len(shapes), False


def explore_shape(shape, tier="quick", seed=0, budget_s=300, validate=0):
    return runner.explore_symbolic(make_world, make_run, shape, seed=seed, deadline=time.time() + budget_s, validate=0,
                                   trace_first=False)


def replay(rec):
    return runner.replay_record(sys.modules[__name__], rec)


def main(tier, seed):
    t0 = time.time()
    runner.assert_real_code()
    shapes, total, sampled = gen_shapes(tier, seed)
    kw = dict(tier=tier, seed=seed, budget_s=200 if tier == "quick" else 1200)
    results = runner.pmap("props.c19", "explore_shape", shapes, kw, chunksize=1)
    return runner.finish(
        PID, tier, seed, t0, results, level="model_checking",
        bounds=dict(threads=2, preemptions="1 (every executed ovld line of thread A is a switch point; B then runs to completion)"
                    + ("" if tier == "quick" else "; 2 on a reduced set of first switch points (every 200th line, 2 scenarios), second switch at every line of B"),
                    scenarios=[s["name"] for s in (SCEN if tier != "quick" else [SCEN[i] for i in (0, 1, 4, 5, 6, 8, 9, 10, 11)])] + [w["name"] for w in WAITER],
                    lock_handover="B is started while A builds (fixed line 300 of the build) and waits for the build lock; after A has released it, A is "
                                  "pre-empted at every %d-th of its remaining lines (rest of the first call, then a recursive call) and B, now owning the lock, at every "
                                  "%d-th of its lines; then A runs to completion, then B" % ((10, 10) if tier == "quick" else (3, 3)),
                    granularity="source lines of ovld/*.py and generated <ovld:...> code (not bytecodes; a switch inside a line is outside the claim)",
                    hierarchy="fixed: K0 < K1, K2 apart"),
        rule="one state = one (scenario, schedule); non-trivial = a pre-emption actually happened",
        stubs=["cooperative baton over real threading.Thread objects; LINE events of sys.monitoring as scheduling points"],
        dont_care=[],
        assumptions=["CPython's real switch points are a superset (any bytecode boundary); a bounded number of pre-emptions at line granularity is "
                     "what is decided", "here the solver enumerates a finite schedule space (bounded model checker's bookkeeping)"],
        shapes_total=total, shapes_sampled=sampled, mod=sys.modules[__name__],
    )
