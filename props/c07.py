"""C07 -- call_next walks down the resolution order one method at a time.

Symbolic: subclass relation R, priorities.  Enumerated: method sets in which any subset delegates with
call_next(same arg) / f.next(same arg) / call_next(instance of another class); plain functions and methods
with self.  Oracle: closed-form rule applied step by step along the logged chain.
"""

import itertools
import random
import sys
import time

import z3

from lib import runner
from symx.engine import Verdict
from symx.kit import MethodSet, class_rule, levels_mechanism, full_outcome
from symx.world import World

PID = "C07"
KNOWN_LEVELS = "C02-integer-levels"
KNOWN_FNEXT = "C07-fnext-drops-self"
KNOWN_UPPER = "C07-upper-rank-tie"
KNOWN_SHARED = "C07-fnext-shared-code"


def _native_fnext_shared():
    import sys

    from ovld import Ovld

    ns = {}
    src = ("def mk(m):\n    def h(x: int):\n        return (m, F.next(x))\n    return h\n"
           "def base(x: int):\n    return 'base'\n")
    import linecache

    linecache.cache["<c07-fnext-shared>"] = (len(src), None, src.splitlines(True), "<c07-fnext-shared>")
    exec(compile(src, "<c07-fnext-shared>", "exec"), ns)
    ov = Ovld()
    ov.register(ns["mk"](1), priority=2)
    ov.register(ns["mk"](2), priority=1)
    ov.register(ns["base"])
    ns["F"] = ov.dispatch
    old = sys.getrecursionlimit()
    sys.setrecursionlimit(300)
    try:
        return ov.dispatch(1) != (1, (2, "base"))
    except RecursionError:
        return True
    finally:
        sys.setrecursionlimit(old)



def _native_upper_tie():
    """h(x: object) forwards an instance of C(A, B) with call_next; f(x: A) and f(x: B) outrank it at priority 1 and
    are tied for C: call_next must say 'No method' (nothing below the caller), it raises 'Ambiguous resolution'."""
    from ovld import Ovld, call_next  # noqa: F401

    class A: pass
    class B: pass
    class C(A, B): pass
    ns = {"A": A, "B": B, "C": C}
    src = ("from ovld import call_next\n"
           "def ho(x: object):\n    return call_next(C())\n"
           "def ha(x: A):\n    return 'A'\n"
           "def hb(x: B):\n    return 'B'\n")
    import linecache
    fn = "<c07-upper-tie>"
    linecache.cache[fn] = (len(src), None, src.splitlines(True), fn)
    exec(compile(src, fn, "exec"), ns)
    ov = Ovld()
    ov.register(ns["ho"], priority=0)
    ov.register(ns["ha"], priority=1)
    ov.register(ns["hb"], priority=1)
    try:
        ov.dispatch(object())
    except TypeError as e:
        return str(e).startswith("Ambiguous")
    return False


def _native_fnext_self():
    from ovld import OvldBase

    class A(OvldBase):
        def f(self, x: int):
            return self.f.next(x)

        def f(self, x: object):
            return "obj"

    try:
        return A().f(1) != "obj"
    except TypeError as e:
        return "missing 1 required positional argument" in str(e)


def _native_other_value():
    """witness: f(x: Literal[0]) hands the value 1 to call_next; Literal[1] shares its rank: the step must act like the fresh call f(1)"""
    from typing import Literal

    from ovld import Ovld, call_next  # noqa: F401

    ov = Ovld()
    src = ("from typing import Literal\nfrom ovld import call_next\n"
           "def zero(x: Literal[0]):\n    return ['zero', call_next(1)]\n"
           "def one(x: Literal[1]):\n    return 'one'\n"
           "def anyint(x: int):\n    return 'int'\n")
    import linecache

    fn = "<c07-native-other-value>"
    linecache.cache[fn] = (len(src), None, src.splitlines(True), fn)
    g = {}
    exec(compile(src, fn, "exec"), g)
    for f in (g["zero"], g["one"], g["anyint"]):
        ov.register(f)
    return ov.dispatch(0) != ["zero", "one"] and ov.dispatch(1) == "one"


NATIVE_WITNESSES = {"c07_fnext_self": _native_fnext_self, "c07_upper_tie": _native_upper_tie, "c07_fnext_shared": _native_fnext_shared,
                    "c07_other_value": _native_other_value}


def make_world(ex, shape, real):
    return World(ex, shape["n"], nprio=len(shape.get("methods", ())), real=real)


_MS = {}


def bodies(shape):
    specs = []
    slf = shape.get("selfarg", False)
    for m, md in enumerate(shape["methods"]):
        names = "xy"[: len(md["pos"])]
        k = md["kind"]
        if k == "ret":
            body = f"return ('ret', {m})"
        elif k == "next":
            body = f"return call_next({', '.join(names)})"
        elif k == "fnext":
            body = f"return {'self.f' if slf else 'F'}.next({', '.join(names)})"
        elif k == "fwd":
            body = f"return call_next({', '.join(f'FW{m}_{q}' for q in range(len(names)))})"
        else:
            raise ValueError(k)
        def term(t):
            base = ("K", t) if t != shape["n"] else ("obj",)
            # class arguments: the methods are declared on type[...] and the calls pass the classes themselves (same rule: type[K] accepts the
            # class C exactly when C is a subclass of K)
            return ("type", base) if shape.get("classargs") else base
        specs.append(dict(pos=[(nm, term(t), False) for nm, t in zip(names, md["pos"])],
                          body=body, selfarg=slf))
    return specs


class FactorySet:
    """all delegating methods are produced by ONE def statement (a factory): they share a single code object and differ
    only in their closure and annotations"""

    SRC = (
        "from ovld import recurse, call_next\n"
        "def mk_next(m):\n"
        "    def h(x):\n"
        "        LOG.append((m, (x,), {}, None))\n"
        "        return call_next(x)\n"
        "    return h\n"
        "def mk_fnext(m):\n"
        "    def h(x):\n"
        "        LOG.append((m, (x,), {}, None))\n"
        "        return F.next(x)\n"
        "    return h\n"
        "def mk_ret(m):\n"
        "    def h(x):\n"
        "        LOG.append((m, (x,), {}, None))\n"
        "        return ('ret', m)\n"
        "    return h\n"
    )
    FN = "<symx-c07-factory>"

    def __init__(self, shape):
        import linecache

        linecache.cache[self.FN] = (len(self.SRC), None, self.SRC.splitlines(True), self.FN)
        self.code = compile(self.SRC, self.FN, "exec")
        self.shape = shape

    def instantiate(self, W, extra=None):
        ns = {"LOG": [], "__name__": "symx_c07_factory"}
        exec(self.code, ns)
        hs = []
        n = self.shape["n"]
        for m, md in enumerate(self.shape["methods"]):
            h = ns[{"next": "mk_next", "fnext": "mk_fnext", "ret": "mk_ret"}[md["kind"]]](m)
            t = md["pos"][0]
            h.__annotations__ = {"x": W.K[t] if t != n else object}
            hs.append(h)
        return hs, ns["LOG"], ns


_DEPMS = {}


def make_run_dep(W, shape, known_active=None):
    """value-dependent methods sharing a rank: d_i = Dependent[K0, flag_i] (each delegating or returning), then a static
    method on K0 and one on object.  Expected chain for an argument with flags (f0, f1[, f2]): if two or more hold -> ambiguity
    error; if exactly one holds -> that method, then (if it delegates) the static K0 method, then object; if none -> the
    static K0 method first.  No method is entered twice."""
    from ovld import Ovld

    kinds = shape["depkinds"]          # per dependent method: "next" | "ret" | "fnext"
    skind = shape["statics"]           # kinds of the K0 and object methods
    D = len(kinds)
    key = repr((kinds, skind))
    ms = _DEPMS.get(key)
    if ms is None:
        def body(m, k):
            return {"ret": f"return ('ret', {m})", "next": "return call_next(x)", "fnext": "return F.next(x)",
                    "nextother": "return call_next(OTHER) if x is not OTHER else ('ret', 'again')"}[k]
        specs = [dict(pos=[("x", ("Dep", ("K", 0), 3 + i), False)], body=body(i, k)) for i, k in enumerate(kinds)]
        specs.append(dict(pos=[("x", ("K", 0), False)], body=body(D, skind[0])))
        specs.append(dict(pos=[("x", ("obj",), False)], body=body(D + 1, skind[1])))
        ms = _DEPMS[key] = MethodSet(specs)

    def run(ctx):
        other = W.K[0]()
        other.flag, other.flag2 = False, True          # an instance for which only the SECOND dependent method's condition holds
        hs, LOG, ns = ms.instantiate(W, extra=dict(OTHER=other))
        ov = Ovld()
        for m in range(D + 2):
            ov.register(hs[m], priority=(-1 if m == D + 1 else 0))
        ns["F"] = ov.dispatch
        if "nextother" in kinds:
            flags = [True, False]                       # the first dependent method runs and hands OTHER on
        else:
            flags = [bool(ctx.choose(f"flag{i}", 2)) for i in range(D)]
        a = W.K[0]()
        a.flag, a.flag2 = flags[0], (flags[1] if D > 1 else False)
        del LOG[:]
        old = sys.getrecursionlimit()
        sys.setrecursionlimit(250)
        try:
            res = ov.dispatch(a)
            term = ("ret", res[1]) if isinstance(res, tuple) and res[0] == "ret" else ("?", repr(res))
        except TypeError as e:
            msg = str(e)
            term = ("AMB",) if msg.startswith("Ambiguous resolution") else ("NOM",) if msg.startswith("No method") else ("EXC", msg[:80])
        except RecursionError:
            term = ("LOOP",)
        finally:
            sys.setrecursionlimit(old)
        chain = [e[0] for e in LOG]
        ks = list(kinds) + list(skind)

        def walk(seq):
            out, t = [], None
            for m in seq:
                out.append(m)
                if ks[m] == "ret":
                    t = ("ret", m)
                    break
            return out, (t if t is not None else ("NOM",))
        hold = [i for i in range(D) if flags[i]]
        known = []
        if "nextother" in kinds:
            # method 0 is not applicable to OTHER (its condition fails there): the step is a fresh call f(OTHER), which method 1 answers
            rest, t = walk([1, D, D + 1])
            exp = ([0] + rest, t)
            # recorded: continuations are keyed by argument TYPES, so the step goes below method 0's rank and skips its sibling
            skipped, t2 = walk([D, D + 1])
            if (chain, term) == ([0] + skipped, t2) and KNOWN_OTHER_VALUE in (known_active if known_active is not None else runner.active_known_ids(PID)):
                known = [(KNOWN_OTHER_VALUE, True)]
        elif len(hold) >= 2:
            exp = ([], ("AMB",))
        else:
            exp = walk((hold + [D, D + 1]) if hold else [D, D + 1])
        ok = (chain, term) == (exp[0], exp[1])
        info = dict(family="dependent methods sharing a rank", kinds=kinds, flags=flags, chain=chain[:12], end=list(term), expected=[exp[0], list(exp[1])])
        return Verdict(ok, known, info, [term[0]], nontrivial=len(chain) >= 2)

    return run


KNOWN_OTHER_VALUE = "C07-call-next-other-value-same-rank"
_FEWMS = {}


def make_run_fewer(W, shape):
    """a method delegates with FEWER arguments than it takes itself (call_next(x) / F.next(x) from f(x, y), or from g(x, *, k)): it is not
    applicable to the shorter call, so the step is a fresh call f(x) -- compared with that call on a fresh function with the same methods"""
    from ovld import Ovld

    kind, t1, t2, viakw = shape["fewer"]           # delegation kind, types of the two one-argument methods, caller takes y | keyword k
    key = repr(shape["fewer"])
    ms = _FEWMS.get(key)
    if ms is None:
        def term(t):
            return ("obj",) if t == shape["n"] else ("K", t)
        call = {"next": "call_next(x)", "fnext": "F.next(x)", "kwnext": "call_next(x, k=k)"}[kind]
        caller = (dict(pos=[("x", ("K", 0), False)], kw=[("k", ("obj",), False)], body=f"return ('via', {call})") if viakw
                  else dict(pos=[("x", ("K", 0), False), ("y", ("obj",), False)], body=f"return ('via', {call})"))
        if kind == "kwnext":
            # every method takes the keyword-only k; the caller (priority 1) hands x and k on: the step is the call f(x, k=k) without it
            ms = _FEWMS[key] = MethodSet([dict(pos=[("x", ("K", 0), False)], kw=[("k", ("obj",), False)], body=f"return ('via', {call})"),
                                          dict(pos=[("x", term(t1), False)], kw=[("k", ("obj",), False)], body="return ('ret', 1)"),
                                          dict(pos=[("x", term(t2), False)], kw=[("k", ("obj",), False)], body="return ('ret', 2)")])
        else:
            ms = _FEWMS[key] = MethodSet([caller, dict(pos=[("x", term(t1), False)], body="return ('ret', 1)"),
                                          dict(pos=[("x", term(t2), False)], body="return ('ret', 2)")])

    def run(ctx):
        def mk():
            hs, LOG, ns = ms.instantiate(W)
            ov = Ovld()
            for m in range(3):
                if not (without_caller and m == 0):
                    ov.register(hs[m], priority=(1 if (m == 0 and kind == "kwnext") else 0))
            ns["F"] = ov.dispatch
            return ov, LOG
        without_caller = False
        ov, LOG = mk()
        a, b = W.inst[0], object()
        got = full_outcome((lambda: ov.dispatch(a, k=b)) if (viakw or kind == "kwnext") else (lambda: ov.dispatch(a, b)), LOG)
        without_caller = kind == "kwnext"
        ref, LOG2 = mk()
        fresh = full_outcome((lambda: ref.dispatch(a, k=b)) if kind == "kwnext" else (lambda: ref.dispatch(a)), LOG2)
        exp_chain = [0] + fresh[0]
        ok = got[0] == exp_chain and (got[1][0] == fresh[1][0]) and (got[1][0] != "ret" or got[1][1] == "('via', " + fresh[1][1] + ")")
        info = dict(family="delegation with fewer arguments", caller=("f(x: K0, *, k)" if viakw else "f(x: K0, y)"), delegation=kind,
                    one_argument_methods=[t1, t2], got=got, fresh_call_f_x=fresh)
        return Verdict(ok, (), info, [got[1][0]], nontrivial=len(got[0]) >= 2)

    return run


def make_run(W, shape, known_active=None):
    from ovld import Ovld

    if shape.get("depkinds"):
        return make_run_dep(W, shape, known_active)
    if shape.get("fewer"):
        return make_run_fewer(W, shape)

    if known_active is None:
        known_active = runner.active_known_ids(PID)
    n = shape["n"]
    methods = shape["methods"]
    M = len(methods)
    key = repr((n, methods, shape.get("selfarg"), shape.get("factory"), shape.get("classargs")))
    ms = _MS.get(key)
    if ms is None:
        ms = _MS[key] = FactorySet(shape) if shape.get("factory") else MethodSet(bodies(shape))
    mtypes = [tuple(md["pos"]) for md in methods]
    npos = len(mtypes[0])
    regs = [sorted({mt[k] for mt in mtypes}) for k in range(npos)]
    rules = {}
    fmemo = {}

    def rule_for(argcls):
        r = rules.get(argcls)
        if r is None:
            r = rules[argcls] = class_rule(W, mtypes, argcls, W.P)
        return r

    def inst(c):
        if shape.get("classargs"):
            return W.K[c] if c != n else object
        return W.inst[c] if c != n else object()

    def run(ctx):
        D = ctx.decide
        extra = {}
        for m, md in enumerate(methods):
            if md["kind"] == "fwd":
                for q, c in enumerate(md["fwd"]):
                    extra[f"FW{m}_{q}"] = inst(c)
        hs, LOG, ns = ms.instantiate(W, extra=extra)
        ov = Ovld()
        for m in range(M):
            ov.register(hs[m], priority=W.prio[m])
        if shape.get("selfarg"):
            holder = type("Holder", (), {"f": ov})()
            call = lambda *a: holder.f(*a)  # noqa: E731
        else:
            ns["F"] = ov.dispatch
            call = ov.dispatch
        args0 = tuple(shape["args"])
        del LOG[:]
        term = None
        _old_limit = sys.getrecursionlimit()
        sys.setrecursionlimit(250)     # a delegation loop shows up as RecursionError; keep it shallow
        try:
            res = call(*[inst(c) for c in args0])
            term = ("ret", res[1]) if isinstance(res, tuple) and res[0] == "ret" else ("?", repr(res))
        except TypeError as e:
            msg = str(e)
            term = ("AMB",) if msg.startswith("Ambiguous resolution") else ("NOM",) if msg.startswith("No method") else ("EXC", msg[:80])
        except RecursionError:
            term = ("LOOP",)
        finally:
            sys.setrecursionlimit(_old_limit)
        chain = [e[0] for e in LOG]
        info = dict(chain=chain[:12] + (["..."] if len(chain) > 12 else []), end=list(term))
        if term[0] in ("EXC", "?", "LOOP"):
            kn = []
            twins = {m for m, md in enumerate(methods) if md["kind"] == "fnext"
                     and any(o != m and od["kind"] == "fnext" and od["pos"] == md["pos"] for o, od in enumerate(methods))}
            if (KNOWN_SHARED in known_active and shape.get("factory") and term[0] == "LOOP" and twins & set(chain[-4:])):
                # recorded: f.next identifies its caller by code object; two f.next methods made by one def statement with the
                # same signature string have equal code objects (the loop runs through one of them)
                kn = [(KNOWN_SHARED, True)]
            if (KNOWN_FNEXT in known_active and shape.get("selfarg") and term[0] == "EXC" and chain
                    and methods[chain[-1]]["kind"] == "fnext" and "missing 1 required positional argument" in term[1]):
                kn = [(KNOWN_FNEXT, True)]  # recorded: f.next from a method with self drops the instance
            return Verdict(False, kn, info, ["broken"])
        # walk the chain
        conj = []
        dontcare = []
        known = []
        cur_args = args0
        ok_struct = True
        if shape.get("selfarg") and not all(e[3] is holder for e in LOG):
            ok_struct = False

        def expect_fresh(rule, observed):
            # observed: ("ran", m) | ("AMB",) | ("NOM",)
            if observed[0] == "ran":
                return rule.wins(observed[1]), rule, None
            if observed[0] == "AMB":
                return z3.And(rule.any_app(), z3.Not(rule.any_win())), rule, None
            return z3.Not(rule.any_app()), rule, None

        def observed_at(i):
            if i < len(chain):
                return ("ran", chain[i])
            return (term[0],) if term[0] in ("AMB", "NOM") else None

        # first step: a fresh call (C02's rule)
        obs = observed_at(0)
        if obs is None:
            return Verdict(False, (), info, ["broken"])
        rule = rule_for(cur_args)
        kn0 = z3.BoolVal(False)
        if obs[0] == "ran" and KNOWN_LEVELS in known_active:
            okk = levels_mechanism(ctx, rule, regs, obs[1])
            kn0 = z3.And(rule.app(obs[1]), z3.Not(rule.any_win()), z3.BoolVal(okk))
        conj.append((expect_fresh(rule, obs)[0], kn0))
        for i, a in enumerate(chain):
            md = methods[a]
            if md["kind"] == "ret":
                if i != len(chain) - 1 or term != ("ret", a):
                    ok_struct = False
                break
            nxt_args = tuple(md["fwd"]) if md["kind"] == "fwd" else cur_args
            obs = observed_at(i + 1)
            if obs is None:
                ok_struct = False
                break
            rule = rule_for(nxt_args)
            appa = rule.app(a)
            others = [m for m in range(M) if m != a]
            tk = ("tied", a, nxt_args)
            tied = fmemo.get(tk)
            if tied is None:
                tied = fmemo[tk] = z3.Or([z3.And(rule.app(m), z3.Not(rule.beats(m, a)), z3.Not(rule.beats(a, m))) for m in others] + [z3.BoolVal(False)])
            # below := applicable methods that `a` beats ; computed concretely (decide) so that it can index the rule
            if D(appa):
                below = [m for m in others if D(rule.app(m)) and D(rule.beats(a, m))]
                if obs[0] == "ran":
                    exp = rule.wins(obs[1], among=below) if obs[1] in below else z3.BoolVal(False)
                elif obs[0] == "AMB":
                    exp = z3.And(z3.BoolVal(bool(below)), z3.Not(rule.any_win(among=below)))
                else:
                    exp = z3.BoolVal(not below)
                kn = z3.BoolVal(False)
                if obs[0] == "AMB" and KNOWN_UPPER in known_active and nxt_args != cur_args:
                    # recorded: a tie among the methods ranked ABOVE the caller (for the forwarded arguments)
                    # surfaces as the ambiguity error instead of continuing below the caller
                    S = [m for m in others if D(rule.app(m)) and D(rule.beats(m, a))]
                    tie = False
                    while S and not tie:
                        w = [m for m in S if all(D(rule.beats(m, o)) for o in S if o != m)]
                        if not w:
                            tie = True
                        else:
                            S.remove(w[0])
                    kn = z3.BoolVal(tie)
                if obs[0] == "ran" and obs[1] in below and KNOWN_LEVELS in known_active:
                    okk = levels_mechanism(ctx, rule, regs, obs[1], among=below)
                    kn = z3.And(z3.Not(rule.any_win(among=below)), z3.BoolVal(okk))
                conj.append((z3.Or(exp, tied), kn))
            else:
                kn = z3.BoolVal(False)
                if obs[0] == "ran" and KNOWN_LEVELS in known_active:
                    okk = levels_mechanism(ctx, rule, regs, obs[1])
                    kn = z3.And(rule.app(obs[1]), z3.Not(rule.any_win()), z3.BoolVal(okk))
                conj.append((expect_fresh(rule, obs)[0], kn))  # current method not applicable: like a fresh call
            cur_args = nxt_args
        nodup = len(set(chain)) == len(chain) or any(methods[a]["kind"] == "fwd" for a in chain)
        post = z3.And([z3.BoolVal(ok_struct and nodup)] + [e for e, _ in conj])
        # the recorded mechanism excuses individual steps only: the run is excused iff every failing step is
        kn = []
        if known_active:
            kn = [(KNOWN_LEVELS if KNOWN_LEVELS in known_active else KNOWN_UPPER,
                   z3.And([z3.BoolVal(ok_struct and nodup)] + [z3.Or(e, k) for e, k in conj]))]
        return Verdict(post, kn, info, [f"len{len(chain)}", term[0]], nontrivial=len(chain) >= 2)

    return run


def gen_shapes(tier, seed):
    rng = random.Random(seed)
    shapes = []
    n = 3
    kinds = ["ret", "next", "fnext"]
    # one position, 3 methods, every type assignment x every delegation pattern
    for mt in itertools.product(range(n + 1), repeat=3):
        for ks in itertools.product(kinds, repeat=3):
            shapes.append(dict(n=n, methods=[dict(pos=[t], kind=k) for t, k in zip(mt, ks)], args=[0]))
    fam_fwd = []
    for mt in itertools.product(range(n + 1), repeat=3):
        for who in range(3):
            for fw in range(n):
                ks = ["next"] * 3
                md = [dict(pos=[t], kind=k) for t, k in zip(mt, ks)]
                md[who] = dict(pos=[mt[who]], kind="fwd", fwd=[fw])
                fam_fwd.append(dict(n=n, methods=md, args=[0]))
    fam2 = []
    pool = list(itertools.product(range(n + 1), repeat=2))
    for _ in range(4000):
        mt = [rng.choice(pool) for _ in range(3)]
        ks = [rng.choice(kinds) for _ in range(3)]
        fam2.append(dict(n=n, methods=[dict(pos=list(t), kind=k) for t, k in zip(mt, ks)], args=rng.choice(([0, 1], [0, 0]))))
    fam4 = []
    for _ in range(3000):
        nn = 4
        mt = [rng.randrange(nn + 1) for _ in range(4)]
        ks = [rng.choice(kinds) for _ in range(4)]
        fam4.append(dict(n=nn, methods=[dict(pos=[t], kind=k) for t, k in zip(mt, ks)], args=[0]))
    fam_self = []
    for mt in itertools.product(range(n + 1), repeat=3):
        for ks in itertools.product(["ret", "next", "fnext"], repeat=3):
            fam_self.append(dict(n=n, selfarg=True, methods=[dict(pos=[t], kind=k) for t, k in zip(mt, ks)], args=[0]))
    fam_dep = []
    for D_ in (2,):
        for ks in itertools.product(["next", "ret"], repeat=D_):
            for sk in itertools.product(["next", "ret"], repeat=2):
                fam_dep.append(dict(n=n, depkinds=list(ks), statics=list(sk)))
    for k1 in ("ret", "next"):
        for sk in itertools.product(["next", "ret"], repeat=2):
            fam_dep.append(dict(n=n, depkinds=["nextother", k1], statics=list(sk)))
    fam_fact = []
    for mt in itertools.product(range(n + 1), repeat=3):
        for ks in itertools.product(["ret", "next", "fnext"], repeat=3):
            fam_fact.append(dict(n=n, factory=True, methods=[dict(pos=[t], kind=k) for t, k in zip(mt, ks)], args=[0]))
    fam_few = [dict(n=n, fewer=[kind, t1, t2, viakw]) for kind in ("next", "fnext") for t1 in range(n + 1) for t2 in range(n + 1) if t1 != t2
               for viakw in (False, True)]
    fam_few += [dict(n=n, fewer=["kwnext", t1, t2, True]) for t1 in range(n + 1) for t2 in range(n + 1) if t1 != t2]
    fam_cls = []
    for mt in itertools.product(range(n + 1), repeat=3):
        for ks in itertools.product(["ret", "next", "fnext"], repeat=3):
            fam_cls.append(dict(n=n, classargs=True, methods=[dict(pos=[t], kind=k) for t, k in zip(mt, ks)], args=[0]))
    total = len(shapes) + len(fam_fwd) + len(fam2) + len(fam4) + len(fam_self) + len(fam_fact) + len(fam_cls) + len(fam_few)
    for f in (shapes, fam_fwd, fam2, fam4, fam_self, fam_fact, fam_cls):
        rng.shuffle(f)
    if tier == "quick":
        out = shapes[:230] + fam_fwd[:110] + fam2[:90] + fam4[:40] + fam_self[:70] + fam_fact[:70] + fam_dep + fam_cls[:70] + fam_few
    else:
        out = shapes + fam_fwd + fam2 + fam4 + fam_self + fam_fact + fam_dep + fam_cls + fam_few
    return out, total, True


def explore_shape(shape, tier="quick", seed=0, budget_s=60, validate=0):
    return runner.explore_symbolic(make_world, make_run, shape, seed=seed,
                                   deadline=time.time() + budget_s, validate=validate)


def replay(rec):
    return runner.replay_record(sys.modules[__name__], rec)


def main(tier, seed):
    t0 = time.time()
    runner.assert_real_code()
    shapes, total, sampled = gen_shapes(tier, seed)
    kw = dict(tier=tier, seed=seed, budget_s=60, validate=1)
    results = runner.pmap("props.c07", "explore_shape", shapes, kw, chunksize=8)
    return runner.finish(
        PID, tier, seed, t0, results,
        bounds=dict(classes="3 (4 in the four-method family)", methods="3-4", positions="1-2",
                    delegation="each method: returns | call_next(same args) | f.next(same args) | call_next(instance of another class)",
                    receivers="plain functions; methods with self bound through the descriptor; methods produced by one factory (shared code object)",
                    priorities="unbounded integers (symbolic)", hierarchy="every partial order (symbolic)"),
        rule="one state = one (method set with delegation pattern) x class of (hierarchy, priorities); non-trivial = chain of >= 2 methods",
        stubs=["SymMeta classes", "SymInt priorities"],
        dont_care=["call_next issued from a method that, for the forwarded arguments, is tied with another applicable method "
                   "(the statement does not say whether equals count as 'ranked above')"],
        assumptions=["inherits the recorded finding C02-integer-levels (same mechanism-level exclusion, applied per step)"],
        shapes_total=total, shapes_sampled=sampled, mod=sys.modules[__name__],
    )
