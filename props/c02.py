"""C02 -- static resolution follows the documented priority-then-specificity rule.

Symbolic: subclass relation R over n harness classes, one integer priority per method.
Enumerated: method-type assignments (shape), call shape.
Oracle: closed formula (symx.kit.Rule) over the same variables.
"""

import itertools
import random
import time

import z3

from lib import runner
from symx.engine import Verdict
from symx.kit import MethodSet, class_rule, levels_mechanism, outcome_of
from symx.world import World

PID = "C02"
KNOWN_LEVELS = "C02-integer-levels"


def method_specs(shape):
    specs = []
    for md in shape["methods"]:
        pos = [(nm, ("K", t) if t != shape["n"] else ("obj",), False) for nm, t in zip("xyz", md["pos"])]
        kw = []
        if md.get("kw") is not None:
            t, req = md["kw"]
            kw = [("k", ("K", t) if t != shape["n"] else ("obj",), not req)]
        specs.append(dict(pos=pos, kw=kw))
    return specs


def make_world(ex, shape, real):
    return World(ex, shape["n"], nprio=len(shape["methods"]), real=real)


_MS_CACHE = {}


def make_run(W, shape, known_active=None):
    from ovld import Ovld

    if known_active is None:
        known_active = runner.active_known_ids(PID)
    n = shape["n"]
    methods = shape["methods"]
    M = len(methods)
    call = shape["call"]
    key = repr((n, methods))          # (index n means `object`: the same method list denotes other types for another n)
    ms = _MS_CACHE.get(key)
    if ms is None:
        ms = _MS_CACHE[key] = MethodSet(method_specs(shape))
    argcls = list(call["args"])
    nargs = len(argcls)
    kwc = call.get("kw")
    # supplied-position type vectors, eligibility (arity / keyword filter of the documentation)
    # recency order of the definitions: a function object that is registered AGAIN (shape["again"]) becomes the most recent one
    again = shape.get("again")
    order = list(range(M)) if again is None else [m for m in range(M) if m != again] + [again]
    sup = []
    elig = []
    sigkey = []
    for md in [methods[m] for m in order]:
        ok = len(md["pos"]) == nargs
        v = list(md["pos"][:nargs])
        kw = md.get("kw")
        if kwc is not None:
            if kw is None:
                ok = False
            else:
                v.append(kw[0])
        else:
            if kw is not None and kw[1]:
                ok = False
        sup.append(tuple(v))
        elig.append(ok)
        sigkey.append((tuple(md["pos"]), tuple(kw) if kw is not None else None))
    supcls = argcls + ([kwc] if kwc is not None else [])
    rule = class_rule(W, sup, supcls, [W.P[m] for m in order], sigkey=sigkey, eligible=elig)
    # registered types per supplied position/name (what ovld's per-position table contains)
    regs = []
    for k in range(nargs):
        regs.append(sorted({md["pos"][k] for md in methods if len(md["pos"]) > k}))
    if kwc is not None:
        regs.append(sorted({md["kw"][0] for md in methods if md.get("kw") is not None}))

    def run(ctx):
        hs, LOG, ns = ms.instantiate(W)
        ov = Ovld()
        for m in range(M):
            # return annotations differ from method to method: they play no part in the rule (identical parameter types = identical signature)
            hs[m].__annotations__ = dict(hs[m].__annotations__, **{"return": (int, str, float, list)[m % 4]})
            ov.register(hs[m], priority=W.prio[m])
        if again is not None:
            ov.register(hs[again], priority=W.prio[again])       # the very same function object, same priority: now the most recent definition
        args = [W.inst[c] if c != n else object() for c in argcls]
        kwargs = {"k": (W.inst[kwc] if kwc != n else object())} if kwc is not None else {}
        out, res = outcome_of(lambda: ov.dispatch(*args, **kwargs), LOG)
        sane = True
        if out[0] == "ran":
            sane = (len(LOG) == 1 and res == out[1] and LOG[0][1] == tuple(args)
                    and all(LOG[0][2].get(k_) is v_ for k_, v_ in kwargs.items()))
        else:
            sane = not LOG
        info = dict(outcome=list(out))
        if kwc is None:
            def viaresolve():
                h = ov.resolve(*args)
                return h(*args)
            out2, res2 = outcome_of(viaresolve, LOG)
            info["resolve"] = list(out2)
            if out2 != out:
                sane = False
        if kwc is None and nargs == 1:
            # an argument whose __class__ reports a harness class although its type is a plain class (a proxy, a mock with a spec): whatever
            # the function does with it, resolve() names the method the call runs
            Liar = type("Liar", (), {"__class__": property(lambda self: W.K[1 % n] if n else object)})
            liar = Liar()
            o_call, _ = outcome_of(lambda: ov.dispatch(liar), LOG)

            def via_resolve_liar():
                h = ov.resolve(liar)
                return h(liar)
            o_res, _ = outcome_of(via_resolve_liar, LOG)
            info["proxy_argument"] = [list(o_call), list(o_res)]
            if o_call != o_res:
                sane = False
        app = [rule.app(m) for m in range(M)]
        anyapp = z3.Or(app)
        wins = [rule.wins(m) for m in range(M)]
        anywin = z3.Or(wins)
        dontcare = rule.dontcare()
        napp = sum(1 for m in range(M) if z3.is_true(ctx.value(app[m])))
        tags = [out[0]]
        known = []
        if not sane:
            post = z3.BoolVal(False)
            tags.append("insane")
        elif out[0] == "NOM":
            post = z3.Not(anyapp)
        elif out[0] == "AMB":
            post = z3.And(anyapp, z3.Not(anywin))
        elif out[0] == "ran" and out[1] is not None:
            a = order.index(out[1])
            post = wins[a]
            if KNOWN_LEVELS in known_active:
                okk = levels_mechanism(ctx, rule, regs, a)
                known.append((KNOWN_LEVELS, z3.And(app[a], z3.Not(anywin), z3.BoolVal(okk))))
        else:
            post = z3.BoolVal(False)
        post = z3.Or(post, dontcare) if sane else post
        return Verdict(post, known, info, tags, nontrivial=napp >= 2)

    return run


# ---------------------------------------------------------------------------


def gen_shapes(tier, seed):
    rng = random.Random(seed)
    shapes = []
    sampled = False

    def add(n, methods, call):
        shapes.append(dict(n=n, methods=methods, call=call))

    # family 1: one position, every assignment of <=3 method types over {K0..K(n-1), object}
    n1 = 4
    for M in (2, 3):
        for mt in itertools.product(range(n1 + 1), repeat=M):
            add(n1, [dict(pos=[t]) for t in mt], dict(args=[0]))
    # family 2: two positions
    n2 = 3
    pool = list(itertools.product(range(n2 + 1), repeat=2))
    fam2 = []
    for M in (2, 3):
        for mt in itertools.product(pool, repeat=M):
            for args in ([0, 1], [0, 0]):
                fam2.append(dict(n=n2, methods=[dict(pos=list(t)) for t in mt], call=dict(args=args)))
    # family 3: mixed arity companions and keyword-only typed parameter
    fam3 = []
    n3 = 3
    for mt in itertools.product(range(n3 + 1), repeat=3):
        for companion in itertools.product(range(n3 + 1), repeat=2):
            fam3.append(dict(n=n3, methods=[dict(pos=[mt[0]]), dict(pos=[mt[1]]), dict(pos=[mt[2]]),
                                            dict(pos=list(companion))], call=dict(args=[0])))
    fam4 = []
    for mt in itertools.product(range(n3 + 1), repeat=2):
        for kt in itertools.product(range(n3 + 1), repeat=2):
            for req in (True, False):
                for kwc in (None, 1, 0):
                    fam4.append(dict(n=n3, methods=[dict(pos=[mt[0]], kw=[kt[0], True]),
                                                    dict(pos=[mt[1]], kw=[kt[1], req]),
                                                    dict(pos=[mt[0]])],
                                     call=dict(args=[0], kw=kwc)))
    # family 5: four methods, two positions, four DISTINCT first-position types (all four layers of a chain occupied)
    fam5 = []
    for perm in itertools.permutations(range(n2 + 1)):
        for second in itertools.product(range(n2 + 1), repeat=4):
            fam5.append(dict(n=n2, methods=[dict(pos=[a, b]) for a, b in zip(perm, second)], call=dict(args=[0, 1])))
    # family 6: the same function object registered again (a, b, a with repeated signatures): it becomes the most recent definition
    fam6 = []
    for mt in itertools.product(range(n3 + 1), repeat=3):
        if len(set(mt)) < 3:
            for j in (0, 1):
                fam6.append(dict(n=n3, methods=[dict(pos=[t]) for t in mt], call=dict(args=[0]), again=j))
    total = len(shapes) + len(fam2) + len(fam3) + len(fam4) + len(fam5) + len(fam6)
    if tier == "quick":
        sampled = True
        rng.shuffle(fam2)
        rng.shuffle(fam3)
        rng.shuffle(fam4)
        rng.shuffle(shapes)
        rng.shuffle(fam5)
        shapes = shapes[:110] + fam2[:400] + fam3[:100] + fam4[:100] + fam5[:260] + fam6
    else:
        rng.shuffle(fam2)
        sampled = True
        shapes = shapes + fam2[:6000] + fam3 + fam4 + fam5 + fam6
        # four methods, two positions (sample)
        for _ in range(1500):
            mt = [rng.choice(pool) for _ in range(4)]
            shapes.append(dict(n=n2, methods=[dict(pos=list(t)) for t in mt], call=dict(args=rng.choice(([0, 1], [0, 0])))))
        # three positions, three methods (sample)
        pool3 = list(itertools.product(range(n2 + 1), repeat=3))
        for _ in range(1500):
            mt = [rng.choice(pool3) for _ in range(3)]
            shapes.append(dict(n=n2, methods=[dict(pos=list(t)) for t in mt], call=dict(args=rng.choice(([0, 1, 2], [0, 0, 1], [0, 1, 0])))))
        # five classes, one position, four methods (sample)
        for _ in range(400):
            shapes.append(dict(n=5, methods=[dict(pos=[rng.randrange(6)]) for _ in range(4)], call=dict(args=[0])))
    return shapes, total, sampled


def explore_shape(shape, tier="quick", seed=0, budget_s=60, validate=0):
    return runner.explore_symbolic(make_world, make_run, shape, seed=seed,
                                   deadline=time.time() + budget_s, validate=validate)


def replay(rec):
    import sys

    return runner.replay_record(sys.modules[__name__], rec)


def _native_levels():
    """f(x:A), f(x:B), f(x:A2, y:int) with A2(A), C(A2,B): f(C()) must raise Ambiguous; returns True iff it does not"""
    from ovld import Ovld

    class A: pass
    class B: pass
    class A2(A): pass
    class C(A2, B): pass
    ov = Ovld()
    def fa(x: A): return "A"
    def fb(x: B): return "B"
    def fc(x: A2, y: int): return "A2"
    for fn in (fa, fb, fc):
        ov.register(fn)
    try:
        ov.dispatch(C())
    except TypeError as e:
        return not str(e).startswith("Ambiguous")
    return True


NATIVE_WITNESSES = {"c02_levels": _native_levels}


def main(tier, seed):
    t0 = time.time()
    runner.assert_real_code()
    shapes, total, sampled = gen_shapes(tier, seed)
    kw = dict(tier=tier, seed=seed, budget_s=60 if tier == "quick" else 240,
              validate=1 if tier == "quick" else 2)
    results = runner.pmap("props.c02", "explore_shape", shapes, kw, chunksize=4)
    return runner.finish(
        PID, tier, seed, t0, results,
        bounds=dict(classes="n=4 (1 position), n=3 (2 positions)" + ("; n=5 sample" if tier != "quick" else ""),
                    methods="<=3 (+1 companion)" if tier == "quick" else "<=4",
                    positions="1-2 (3 sampled in thorough) + one keyword-only typed parameter",
                    priorities="unbounded integers (symbolic)",
                    hierarchy="every partial order on the n classes, object on top (symbolic)"),
        rule="one state = one path class (set of hierarchies x priority assignments the real code cannot "
             "distinguish on this shape); non-trivial = at least two methods applicable under the class's model",
        stubs=["SymMeta classes: issubclass/isinstance answered from solver variables R[i][j] (partial order)",
               "SymInt priorities: comparisons answered by the solver"],
        dont_care=["two applicable top-priority methods with identical types on all supplied positions but "
                   "different signatures (extra keyword/optional parameter): the statement does not rank them"],
        assumptions=["ovld consults user classes only through issubclass/isinstance (validated by native replays)",
                     "CPython set iteration order as it happens (order dependence is C06's subject)"],
        shapes_total=total, shapes_sampled=sampled, mod=__import__("sys").modules[__name__],
    )
