"""C18 -- a failed build never leaves a half-built function in service.

Symbolic: the crash point kappa ("an exception arrives when the kappa-th executed ovld source line of the
operation is about to run"; solver integer, one path class per value plus one for "beyond the end"), the
hierarchy R (thorough), the position of an invalid method in the registration order (selector).
Enumerated: scenarios -- first-use build, rebuild after a registration on a used function, cache-miss resolution
(with call_next continuations and a dependent method), natural failure sources (conflicting argument names,
call_next not called, unreadable source, a user class predicate raising on its j-th invocation).
Oracle: after the failed operation every probe equals the outcome on a cleanly built function with the complete
method set (for an interrupt), or raises a configuration error again (for an invalid method) and equals the clean
function without the offender once it is unregistered.
"""

import itertools
import linecache
import random
import sys
import time

import z3

from lib import runner
from symx import fault
from symx.engine import Verdict
from symx.kit import MethodSet, full_outcome
from symx.world import World

PID = "C18"
MAXK = 20000


def make_world(ex, shape, real):
    return World(ex, 3, nprio=0, real=real)


# method pool for the interrupt scenarios
def _specs():
    return [
        dict(pos=[("x", ("K", 0), False)], body="return (0, call_next(x))"),
        dict(pos=[("x", ("K", 1), False)], body="return 1"),
        dict(pos=[("x", ("obj",), False)], body="return 2"),
        dict(pos=[("x", ("Dep", ("K", 1), 3), False)], body="return (3, call_next(x))"),
        dict(pos=[("x", ("raw", "list"), False)], body="return [recurse(a) for a in x]"),
        dict(pos=[("x", ("K", 2), False)], body="return 5"),
    ]


_MS = MethodSet(_specs())
BAD_SRC = '''from ovld import recurse, call_next
def bad_names(y: object, x: object):
    return "bad_names"
def bad_next(x: T_BAD):
    cn = call_next
    return ("bad_next", cn)
'''
_BAD_FN = "<symx-c18-bad>"
linecache.cache[_BAD_FN] = (len(BAD_SRC), None, BAD_SRC.splitlines(True), _BAD_FN)
_BAD_CODE = compile(BAD_SRC, _BAD_FN, "exec")


_WINDOW = {}


def before_takeout(crash):
    """mechanism of the recorded finding: the fault arrives after register() changed the method table and before _compile() has
    taken the function out of service -- only register/_register/_update/compile/_compile/_lock_parents are active, and inside
    _compile the line is not after the one that re-installs the first-call entry point (read from the current source)."""
    import inspect

    from ovld.core import Ovld

    if "last" not in _WINDOW:
        lines, start = inspect.getsourcelines(Ovld._compile)
        idx = [i for i, ln in enumerate(lines) if "_bootstrap_code" in ln]
        _WINDOW["last"] = start + idx[0] if idx else -1
    outer = {"register", "_register", "_update", "compile", "_compile", "_lock_parents", "_set_defn"}
    if not crash.stack or not set(crash.stack) <= outer:
        return False
    if crash.stack[0] == "_compile":
        try:
            line = int(crash.fired.split(":")[1].split()[0])
        except Exception:  # noqa: BLE001
            return False
        return line <= _WINDOW["last"]
    return True


def _native_interrupt_before_takeout():
    """witness of C18-interrupt-before-takeout against the real code: an interrupt arrives when register() has stored the new method and is
    about to start the rebuild; the method is listed afterwards but calls keep following the previous table"""
    from ovld import Ovld

    class Stop(BaseException):
        pass

    def hook(code, lineno):
        if code.co_name == "_update":
            raise Stop()

    ov = Ovld()

    def f_obj(x: object):
        return "object"

    def f_int(x: int):
        return "int"

    ov.register(f_obj)
    assert ov.dispatch(1) == "object"
    try:
        with fault.Armed(hook):
            ov.register(f_int)
    except Stop:
        pass
    listed = any(f is f_int for f in ov.defns.values())
    return listed and ov.dispatch(1) == "object"


NATIVE_WITNESSES = {"c18_interrupt_before_takeout": _native_interrupt_before_takeout}


def make_run(W, shape, known_active=None, replay_info=None):
    from ovld import Ovld, class_check
    from ovld.utils import UsageError

    scen = shape["scenario"]
    lo, hi = shape.get("krange", (1, MAXK))
    ex = W.ex
    kappa = ex.int("kappa")
    ex.s.add(kappa >= lo, kappa <= hi)
    concrete = shape.get("concrete_hierarchy")
    if concrete is not None and not W.real:
        # quick tier: one fixed hierarchy (K0 < K1, K2 apart)
        for i in range(3):
            for j in range(3):
                if i != j:
                    ex.s.add(W.R[i][j] == z3.BoolVal([i, j] in concrete))

    def mkarg(c, flag=False):
        if c == 3:
            return object()
        if c == 4:
            a = W.K[0]()
            a.flag = True
            return [a, [W.K[1]()]]
        a = W.K[c]()
        a.flag = flag
        return a

    PROBES = [(0, False), (1, False), (1, True), (2, False), (3, False), (4, False)]

    def build(ms_idx, ns_holder=None):
        hs, LOG, ns = _MS.instantiate(W)
        ov = Ovld()
        for m in ms_idx:
            ov.register(hs[m])
        return ov, hs, LOG

    def probe_all(ov, LOG):
        out = [full_outcome(lambda: ov.dispatch(mkarg(c, f)), LOG) for c, f in PROBES]  # the public function object

        def res(c, f):
            h = ov.resolve(mkarg(c, f))
            nm = getattr(h, "__name__", repr(h)).split(".")[-1]
            if nm.startswith("specialized_dispatch_"):
                return "specialized_dispatch"                 # (numbered per resolution)
            return nm[nm.index("["):] if "[" in nm else nm      # (the prefix is the name of the first registered function)

        out += [full_outcome(lambda: res(c, f), LOG) for c, f in PROBES[:4]]               # and the public resolve()
        out += [full_outcome(lambda: ov.next(mkarg(c, f)), LOG) for c, f in PROBES[:4]]    # and next() (from outside a method: a fresh lookup)
        return out

    def run_interrupt(ctx):
        k = ctx.value(kappa).as_long()
        base = shape["methods"]
        late = shape.get("late")
        ov, hs, LOG = build(base)
        clean_sets = [list(base)]
        at = None
        if replay_info and replay_info.get("crash"):
            at = (replay_info["crash"], replay_info["occurrence"])   # replay: same location, same occurrence
        crash = fault.CrashAt(k, at=at)
        what = None
        faulted = False
        try:
            if scen == "first":
                a = mkarg(*shape["arg"])
                with fault.Armed(crash):
                    ov.dispatch(a)
            elif scen == "rebuild":
                ov.dispatch(mkarg(0))
                ov.dispatch(mkarg(3))
                clean_sets = [list(base) + [late], list(base)]
                with fault.Armed(crash):
                    ov.register(hs[late])
            elif scen == "miss":
                ov.dispatch(mkarg(2))
                a = mkarg(*shape["arg"])
                with fault.Armed(crash):
                    ov.dispatch(a)
        except fault.InjectedFault as e:
            faulted = True
            what = str(e)
        except Exception as e:  # noqa: BLE001
            what = "unexpected: " + type(e).__name__
        if faulted:
            ctx.pc.append(kappa == k)
        else:
            ctx.pc.append(kappa > crash.n)
        ctx.literals += 1
        if scen == "first" and shape.get("then_register") is not None:
            # the function is changed after the interrupted first build: whatever state the interrupt left, the change must take effect
            try:
                ov.register(hs[shape["then_register"]])
                clean_sets = [list(base) + [shape["then_register"]]]
            except Exception as e:  # noqa: BLE001
                what = (what or "") + " / register afterwards: " + type(e).__name__
        listed = None
        if scen == "rebuild":
            # interrupted register(): the registration either took effect (the method is listed) or it did not; every probe must then follow
            # the complete set of methods the function lists
            listed = any(getattr(f, "__name__", "") == hs[late].__name__ for f in ov.defns.values())
            clean_sets = [list(base) + [late]] if listed else [list(base)]
        got = probe_all(ov, LOG)
        exps = []
        for s_ in clean_sets:
            ref, _, LOG2 = build(s_)
            exps.append(probe_all(ref, LOG2))
        ok = all(any(g == e[i] for e in exps) for i, g in enumerate(got))
        known = []
        if not ok and scen == "rebuild" and faulted and listed:
            known.append(("C18-interrupt-before-takeout", before_takeout(crash)))
        info = dict(scenario=scen, crash=(what if faulted else None), occurrence=crash.occurrence, _line_index=k if faulted else None, lines=crash.n,
                    stack=list(crash.stack)[:8] if faulted else None, new_method_listed=listed,
                    probes_after=got, clean=exps[0] if not ok else None)
        return Verdict(ok, known, info, ["fault" if faulted else "nofault"], nontrivial=faulted)

    def run_natural(ctx):
        kind = shape["kind"]
        base = shape["methods"]
        warm = shape.get("warm")
        pos = len(base) if warm else ctx.choose("badpos", len(base) + 1)
        hs, LOG, ns = _MS.instantiate(W)
        nsb = {"T_BAD": W.K[shape.get("badtype", 0)], "__name__": "symx_c18_bad"}
        exec(_BAD_CODE, nsb)
        raised = []
        if kind == "names":
            bad = nsb["bad_names"]
        elif kind == "next":
            bad = nsb["bad_next"]
        elif kind == "source":
            src = "def bad_src(x: T_BAD):\n    return ('bad_src', recurse(x))\n"
            g = {"T_BAD": nsb["T_BAD"], "recurse": __import__("ovld").recurse}
            exec(compile(src, "<no-such-file-anywhere>", "exec"), g)
            bad = g["bad_src"]
        ov = Ovld()
        seq = list(base)
        order = seq[:pos] + ["bad"] + seq[pos:]
        reg_err = None
        child = None
        for m in order:
            if m == "bad" and warm:
                probe_all(ov, LOG)            # the function is in use (built, tables filled) when the invalid method arrives: a REBUILD fails
                if shape.get("linked"):
                    # a linked variant with a method of its own, in use as well: the parent's methods are part of its complete set
                    child = ov.copy(linkback=True)
                    child.register(hs[5])
                    probe_all(child, LOG)
            try:
                ov.register(bad if m == "bad" else hs[m])
            except Exception as e:  # noqa: BLE001
                reg_err = type(e).__name__
        trace = dict(kind=kind, position=pos, in_use_before=bool(warm), register_error=reg_err)
        ok = True
        bad_listed = any(f is bad for f in ov.defns.values())
        if reg_err is not None and bad_listed:
            reg_err = None                    # the registration failed loudly but the method is listed: calls must keep failing
        elif reg_err is not None:
            base_now, _, LOGn = build(base)
            if probe_all(ov, LOG) != probe_all(base_now, LOGn):
                ok = False                    # not listed: the function must behave as if it had never been offered

        def config_error(out):
            t = out[1]
            return t[0] == "EXC" and not t[1].startswith(("TypeError:No method", "TypeError:Ambiguous"))

        first = probe_all(ov, LOG)
        again = probe_all(ov, LOG)
        trace["first_round"] = [o[1] for o in first]
        trace["second_round"] = [o[1] for o in again]
        if reg_err is None:
            # the invalid method is in: every call must fail with a configuration error, every time
            for o in first + again:
                if not config_error(o):
                    ok = False
        if child is not None:
            c_first = probe_all(child, LOG)
            c_again = probe_all(child, LOG)
            trace["variant_first_round"] = [o[1] for o in c_first]
            if any(f is bad for f in child.defns.values()):
                for o in c_first + c_again:
                    if not config_error(o):
                        ok = False
        try:
            ov.unregister(bad)
        except Exception as e:  # noqa: BLE001
            trace["unregister_error"] = type(e).__name__
            ok = False
        if child is not None:
            c_after = probe_all(child, LOG)
            cref, _, LOGc = build(list(base) + [5])
            c_exp = probe_all(cref, LOGc)
            trace["variant_after_unregister"] = [o[1] for o in c_after]
            if c_after != c_exp:
                ok = False
                trace["variant_clean"] = [o[1] for o in c_exp]
        after = probe_all(ov, LOG)
        ref, _, LOG2 = build(base)
        exp = probe_all(ref, LOG2)
        trace["after_unregister"] = [o[1] for o in after]
        if after != exp:
            ok = False
            trace["clean"] = [o[1] for o in exp]
        return Verdict(ok, (), trace, [kind], nontrivial=True)

    def run_hook(ctx):
        """a user class predicate raises on its j-th invocation (j = kappa): a failure inside cache-miss resolution"""
        k = ctx.value(kappa).as_long()
        calls = [0]
        armed = [True]
        raised = [False]

        def pred(cls):
            calls[0] += 1
            if armed[0] and calls[0] == k:
                raised[0] = True
                raise (TypeError if shape.get("exc") == "TypeError" else RuntimeError)("user predicate failed")
            return getattr(cls, "_idx", None) in (0, 1)

        hs, LOG, ns = _MS.instantiate(W)

        def mk(p):
            ov = Ovld()
            hs2, LOG2, ns2 = _MS.instantiate(W)
            hs2[1].__annotations__ = {"x": class_check(p)}
            for m in shape["methods"]:
                ov.register(hs2[m])
            return ov, LOG2

        ov, LOGa = mk(pred)
        faulted = False
        outs = []
        for c, f in PROBES:
            o = full_outcome(lambda: ov.dispatch(mkarg(c, f)), LOGa)
            outs.append(o)
        faulted = raised[0]       # (whether or not the exception reached the caller)
        if faulted:
            ctx.pc.append(kappa == k)
        else:
            ctx.pc.append(kappa > calls[0])
        ctx.literals += 1
        armed[0] = False
        got = probe_all(ov, LOGa)

        def pred2(cls):
            return getattr(cls, "_idx", None) in (0, 1)

        pred2.__name__ = "pred"

        ref, LOGr = mk(pred2)
        exp = probe_all(ref, LOGr)
        ok = got == exp
        return Verdict(ok, (), dict(scenario="hook", raised_on_invocation=k if faulted else None, probes_after=got,
                                    clean=exp if not ok else None), ["fault" if faulted else "nofault"], nontrivial=faulted)

    return {"first": run_interrupt, "rebuild": run_interrupt, "miss": run_interrupt, "natural": run_natural, "hook": run_hook}[scen]


def count_lines(shape):
    """number of ovld lines the operation executes without a fault (for splitting kappa's range over workers)"""
    from symx.engine import Explorer

    ex = Explorer(forced={"kappa": MAXK})
    sh = dict(shape, krange=(MAXK, MAXK))
    W = make_world(ex, sh, False)
    st, c = ex.explore(make_run(W, sh), max_paths=1)
    return st["samples"][0]["lines"]


def gen_shapes(tier, seed):
    conc = [[0, 1]]
    shapes = []
    scen = []
    for methods in ([0, 1, 2], [2, 1, 0, 3], [4, 0, 2, 3]):
        for arg in ([0, False], [1, True], [4, False]):
            scen.append(dict(scenario="first", methods=methods, arg=arg))
    scen.append(dict(scenario="first", methods=[0, 2], arg=[0, False], then_register=1))
    scen.append(dict(scenario="rebuild", methods=[0, 2], late=1))
    scen.append(dict(scenario="rebuild", methods=[2, 1, 3], late=0))
    scen.append(dict(scenario="rebuild", methods=[4, 2], late=5))
    for methods in ([0, 1, 2, 3], [4, 0, 1, 2]):
        for arg in ([0, False], [1, True], [4, False]):
            scen.append(dict(scenario="miss", methods=methods, arg=arg))
    if tier == "quick":
        scen = [s for i, s in enumerate(scen) if i in (1, 3, 8, 9, 10, 11, 13, 17)]
    for s in scen:
        if tier == "quick":
            s["concrete_hierarchy"] = conc
        n = count_lines(dict(s, concrete_hierarchy=conc))
        chunks = 16 if tier == "quick" else 32
        step = max(1, (n + chunks - 1) // chunks)
        lo = 1
        while lo <= n:
            hi = min(n, lo + step - 1)
            shapes.append(dict(s, krange=[lo, hi if hi < n else MAXK]))
            lo = hi + 1
    for kind in ("names", "next", "source"):
        for methods in ([0, 1, 2], [2, 0], [4, 2, 1]):
            shapes.append(dict(scenario="natural", kind=kind, methods=methods, concrete_hierarchy=conc if tier == "quick" else None))
            shapes.append(dict(scenario="natural", kind=kind, methods=methods, warm=True, concrete_hierarchy=conc if tier == "quick" else None))
            shapes.append(dict(scenario="natural", kind=kind, methods=methods, warm=True, linked=True, concrete_hierarchy=conc if tier == "quick" else None))
    for methods in ([0, 1, 2], [2, 1, 0, 3]):
        for exc in ("RuntimeError", "TypeError"):     # (TypeError is what issubclass itself raises: it must not be mistaken for "not a class")
            shapes.append(dict(scenario="hook", methods=methods, exc=exc, krange=[1, MAXK], concrete_hierarchy=conc if tier == "quick" else None))
    return shapes, len(shapes), False


def explore_shape(shape, tier="quick", seed=0, budget_s=120, validate=0):
    return runner.explore_symbolic(make_world, make_run, shape, seed=seed, deadline=time.time() + budget_s, validate=0,
                                   trace_first=False)


def replay(rec):
    return runner.replay_record(sys.modules[__name__], rec)


def main(tier, seed):
    t0 = time.time()
    runner.assert_real_code()
    shapes, total, sampled = gen_shapes(tier, seed)
    kw = dict(tier=tier, seed=seed, budget_s=120 if tier == "quick" else 900)
    results = runner.pmap("props.c18", "explore_shape", shapes, kw, chunksize=1)
    return runner.finish(
        PID, tier, seed, t0, results, level="model_checking",
        bounds=dict(crash_points="every executed source line of ovld/*.py and of the generated <ovld:...> code during the faulted operation "
                                 "(kappa = 1..N, plus 'no fault')",
                    scenarios="first-use build (3 method sets x 3 first arguments), rebuild on register after use (3), cache-miss resolution after use "
                              "(2 x 3); quick tier: a subset of 7", natural_failures="conflicting argument names, call_next not called, unreadable source "
                              "at every registration position (selector); user class predicate raising on its j-th invocation (every j)",
                    probes="K0(), K1() with/without the dependent flag, K2(), object(), nested list -- after the fault, and after unregistering the offender",
                    hierarchy="fixed (K0 < K1, K2 apart) in the quick tier; every partial order (symbolic) in the thorough tier",
                    faults="at most one fault per run, between two source lines (not inside a line)"),
        rule="one state = one (scenario, crash point | failure position) [x class of hierarchies]; non-trivial = a fault was actually injected",
        stubs=["sys.monitoring LINE callback restricted to ovld files raising InjectedFault(BaseException)", "SymMeta classes"],
        dont_care=["rebuild scenario: the interrupted register() may or may not have taken effect; every probe must equal the clean function with or "
                   "without the new method (two crash points, between clearing the built flag and re-installing the first-call entry point, answer "
                   "dispatch calls with the old set and resolve() with the new one)"],
        assumptions=["an interrupt is modelled as an exception raised when a line is about to execute; faults inside a single line are outside the claim"],
        shapes_total=total, shapes_sampled=sampled, mod=sys.modules[__name__],
    )
