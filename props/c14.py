"""C14 -- types passed as arguments dispatch on type[...] by subtype.

Symbolic: subclass relation R, priorities.  Enumerated: method sets with type[...] / plain annotations, passed
objects (classes, parametrised generics, nested, Any, instances).  Oracle: closed-form subtype rule + GRule.
"""

import itertools
import random
import sys
import time
import typing

import z3

from lib import runner
from symx.engine import Verdict
from symx.kit import GRule, MethodSet, levels_mechanism, outcome_of
from symx.world import World

PID = "C14"
KNOWN_LEVELS = "C02-integer-levels"


class MyList(list):
    pass


_V = typing.TypeVar("_V")


class IntKeyed(dict, typing.Generic[_V]):
    """a dict subclass with ONE type parameter of its own"""


class MK(type):
    """a user metaclass: a method annotated MK accepts the classes whose metaclass it is"""


class KM(metaclass=MK):
    pass


class KMsub(KM):
    pass


def tt(x):
    return tuple(tt(y) for y in x) if isinstance(x, list) else x


def build_t(T, W):
    """type object for a type term (what is passed / what sits inside type[...])"""
    k = T[0]
    if k == "K":
        return W.K[T[1]]
    if k == "obj":
        return object
    if k == "list":
        return list[build_t(T[1], W)]
    if k == "mylist":
        return MyList[build_t(T[1], W)]
    if k == "dict":
        return dict[build_t(T[1], W), build_t(T[2], W)]
    if k == "any":
        return typing.Any
    if k == "bare":
        return {"mylist": MyList, "list": list, "dict": dict, "intkeyed": IntKeyed}[T[1]]
    if k == "intkeyed":
        return IntKeyed[build_t(T[1], W)]
    if k == "tuple":
        return tuple[tuple(build_t(x, W) for x in T[1:])]
    if k in ("km", "kmsub"):
        return KM if k == "km" else KMsub
    raise ValueError(T)


def build_ann(a, W):
    k = a[0]
    if k == "obj":
        return object
    if k == "K":
        return W.K[a[1]]
    if k == "baretype":
        return type
    if k == "typeany":
        return type[typing.Any]
    if k == "metak":
        return MK
    if k == "type":
        return type[build_t(a[1], W)]
    if k == "union":
        return typing.Union[build_ann(a[1], W), build_ann(a[2], W)]
    raise ValueError(a)


def norm_ann(a):
    return ("type", ("obj",)) if a[0] in ("baretype", "typeany") else a   # bare type, type[Any]: same as type[object]


def tstr(T):
    k = T[0]
    if k == "K":
        return f"K{T[1]}"
    if k in ("obj", "any"):
        return {"obj": "object", "any": "Any"}[k]
    if k == "baretype":
        return "type"
    if k == "typeany":
        return "type[Any]"
    if k == "metak":
        return "MK (a metaclass)"
    if k in ("km", "kmsub"):
        return {"km": "KM", "kmsub": "KMsub"}[k]
    if k == "inst":
        return f"K{T[1]}()" if T[1] >= 0 else "object()"
    if k == "bare":
        return {"mylist": "MyList", "list": "list", "dict": "dict", "intkeyed": "IntKeyed"}[T[1]]
    if k == "intkeyed":
        return f"IntKeyed[{tstr(T[1])}]"
    if k == "cls":
        return tstr(T[1])
    if k == "union":
        return f"{tstr(T[1])} | {tstr(T[2])}"
    return {"list": "list", "mylist": "MyList", "dict": "dict", "type": "type", "tuple": "tuple"}[k] + "[" + ", ".join(tstr(x) for x in T[1:]) + "]"


def subT(S, T, W):
    n = W.n
    if S[0] == "any":
        S = ("obj",)
    if T[0] in ("obj", "any"):
        return z3.BoolVal(True)      # typing.Any counts as object, also as an argument of a generic
    if S[0] in ("km", "kmsub"):
        return z3.BoolVal(False)      # classes with a metaclass of their own: below object only
    if S[0] in ("bare", "intkeyed"):
        # a bare class (list, dict, a subclass) or a subclass origin with its own, different parameter list: never a
        # subtype of a parametrised generic with another number of arguments, nor of a harness class
        return z3.BoolVal(False)
    if T[0] == "K":
        return W.rel(S[1], T[1]) if S[0] == "K" else z3.BoolVal(False)
    if T[0] == "list":
        return subT(S[1], T[1], W) if S[0] in ("list", "mylist") else z3.BoolVal(False)
    if T[0] == "dict":
        return z3.And(subT(S[1], T[1], W), subT(S[2], T[2], W)) if S[0] == "dict" else z3.BoolVal(False)
    if T[0] == "tuple":
        if S[0] != "tuple" or len(S) != len(T):
            return z3.BoolVal(False)
        return z3.And([subT(x, y, W) for x, y in zip(S[1:], T[1:])])
    raise ValueError(T)


def app(W):
    def f(ann, arg):
        if ann[0] == "obj":
            return z3.BoolVal(True)
        if ann[0] == "K":
            if arg[0] == "inst" and arg[1] >= 0:
                return W.rel(arg[1], ann[1])
            return z3.BoolVal(False)
        if ann[0] == "type":
            return subT(arg[1], ann[1], W) if arg[0] == "cls" else z3.BoolVal(False)
        if ann[0] == "metak":
            return z3.BoolVal(arg[0] == "cls" and arg[1][0] in ("km", "kmsub"))
        if ann[0] == "union":
            return z3.Or(f(ann[1], arg), f(ann[2], arg))
        raise ValueError(ann)
    return f


def le(W):
    def f(a, b):
        if b[0] == "obj":
            return z3.BoolVal(True)
        if a[0] == "obj":
            return z3.BoolVal(False)
        if a[0] == "K" and b[0] == "K":
            return W.rel(a[1], b[1])
        if a[0] == "type" and b[0] == "type":
            return subT(a[1], b[1], W)
        if a[0] == "metak":
            return z3.BoolVal(b in (("metak",), ("type", ("obj",))))     # a metaclass is a subclass of type (= type[object])
        if a[0] == "union":
            return z3.And(f(a[1], b), f(a[2], b))
        if b[0] == "union":
            return z3.Or(f(a, b[1]), f(a, b[2]))
        return z3.BoolVal(False)
    return f


def make_world(ex, shape, real):
    if shape.get("kind") == "punion":
        return World(ex, shape["n"], nprio=0, real=real)
    M = len(shape["methods"])
    W = World(ex, shape["n"], nprio=M + 1, real=real)
    for m in range(M):          # the forwarding helper method outranks every method of the set
        ex.s.add(W.P[M] > W.P[m])
    return W


_MS = {}


_PU = MethodSet([dict(pos=[("x", ("obj",), False)]), dict(pos=[("x", ("obj",), False)])])


def make_run_punion(W, shape):
    """a union OBJECT (A | B, typing.Union[A, B], Optional[A]) passed as an argument: it is not a subtype of T unless every member is, so a
    method on type[T] must not be entered with it when some member is not (the statement is silent on the other direction: either answer)"""
    import typing

    from ovld import Ovld

    T = tt(shape["ann"])
    a, b = shape["members"]
    spelling = shape["spelling"]

    def run(ctx):
        hs, LOG, ns = _PU.instantiate(W)
        hs[0].__annotations__ = {"x": type[build_t(T, W)]}
        ov = Ovld()
        ov.register(hs[0], priority=0)
        ov.register(hs[1], priority=-1)
        A, B = W.K[a], W.K[b]
        passed = {"pipe": lambda: A | B, "typing": lambda: typing.Union[A, B], "optional": lambda: typing.Optional[A]}[spelling]()
        out, res = outcome_of(lambda: ov.dispatch(passed), LOG)
        members = [("K", a)] + ([("K", b)] if spelling != "optional" else [])
        allsub = z3.And([subT(m, T, W) for m in members]) if spelling != "optional" else z3.BoolVal(False)   # (NoneType is never below a harness class)
        post = z3.And(z3.BoolVal(out in (("ran", 0), ("ran", 1))), z3.Implies(z3.BoolVal(out == ("ran", 0)), allsub))
        info = dict(method=f"type[{tstr(T)}]", passed={"pipe": f"K{a} | K{b}", "typing": f"typing.Union[K{a}, K{b}]", "optional": f"typing.Optional[K{a}]"}[spelling],
                    outcome=list(out))
        return Verdict(post, (), info, [str(out)], nontrivial=out == ("ran", 0))

    return run


def make_run(W, shape, known_active=None):
    from ovld import Ovld

    if shape.get("kind") == "punion":
        return make_run_punion(W, shape)
    if known_active is None:
        known_active = runner.active_known_ids(PID)
    methods = [[tt(a) for a in m] for m in shape["methods"]]
    args = [tt(a) for a in shape["args"]]
    M = len(methods)
    npos = len(args)
    kwonly = bool(shape.get("kwonly"))
    key = npos, M, kwonly
    ms = _MS.get(key)
    if ms is None:
        if kwonly:
            # the type-valued parameter is keyword-only (the lookup for keywords is generated separately from the positional one)
            specs_ = [dict(pos=[], kw=[("x", ("obj",), False)]) for _ in range(M)]
        else:
            specs_ = [dict(pos=[(nm, ("obj",), False) for nm in "xy"[:npos]]) for _ in range(M)]
        if npos == 1 and not kwonly:
            # an extra method on instances of K2 that forwards the passed TYPE through recurse: the rewritten call site must
            # key type-valued arguments exactly like the entry point does
            specs_.append(dict(pos=[("x", ("obj",), False)], body="return ('rec', recurse(PASSED[0]))"))
        ms = _MS[key] = MethodSet(specs_)
    sup = [tuple(norm_ann(a) for a in m) for m in methods]
    rule = GRule(sup, tuple(args), W.P[:M], app(W), le(W))
    regs = [sorted({s[k] for s in sup}, key=repr) for k in range(npos)]

    def run(ctx):
        PASSED = [None]
        hs, LOG, ns = ms.instantiate(W, extra={"PASSED": PASSED})
        ov = Ovld()
        via_recurse = npos == 1 and not kwonly and args[0][0] == "cls" and not any(a[0] == ("K", 2) for a in sup)
        late = bool(shape.get("late")) and via_recurse
        for m in range(M):
            hs[m].__annotations__ = {nm: build_ann(a, W) for nm, a in zip("xy", methods[m])}
        typed = [m for m in range(M) if methods[m][0][0] not in ("obj", "K")]
        for m in range(M):
            if not (late and m in typed):
                ov.register(hs[m], priority=W.prio[m])
        if via_recurse:
            hs[M].__annotations__ = {"x": W.K[2]}
            ov.register(hs[M], priority=W.prio[M])
        if late:
            # the function is used once (built; the helper's recurse call rewritten) BEFORE its type[...] methods are registered
            PASSED[0] = 0
            try:
                ov.dispatch(W.inst[2])
            except TypeError:
                pass
            del LOG[:]
            for m in typed:
                ov.register(hs[m], priority=W.prio[m])
        actual = []
        for a in args:
            if a[0] == "inst":
                actual.append(W.inst[a[1]] if a[1] >= 0 else object())
            else:
                actual.append(build_t(a[1], W))
        if kwonly:
            out, res = outcome_of(lambda: ov.dispatch(x=actual[0]), LOG)
            sane = (len(LOG) == 1 and res == out[1] and LOG[0][1] == () and LOG[0][2].get("x") is actual[0]) if out[0] == "ran" else not LOG
        else:
            out, res = outcome_of(lambda: ov.dispatch(*actual), LOG)
            sane = (len(LOG) == 1 and res == out[1] and all(x is y for x, y in zip(LOG[0][1], actual))) if out[0] == "ran" else not LOG
        if via_recurse and sane:
            PASSED[0] = actual[0]
            from symx.kit import full_outcome

            chain, term = full_outcome(lambda: ov.dispatch(W.inst[2]), LOG)
            inner = ("ran", chain[1]) if len(chain) == 2 and term[0] == "ret" else ((term[0],) if chain == [M] and term[0] in ("AMB", "NOM") else ("?", chain, term))
            if inner != out:
                sane = False
        apps = [rule.app(m) for m in range(M)]
        anyapp, anywin = rule.any_app(), rule.any_win()
        known = []
        if not sane:
            post = z3.BoolVal(False)
        elif out[0] == "NOM":
            post = z3.Not(anyapp)
        elif out[0] == "AMB":
            post = z3.And(anyapp, z3.Not(anywin))
        elif out[0] == "ran" and out[1] is not None:
            a = out[1]
            post = rule.wins(a)
            if KNOWN_LEVELS in known_active:
                okk = levels_mechanism(ctx, rule, regs, a)
                known.append((KNOWN_LEVELS, z3.And(apps[a], z3.Not(anywin), z3.BoolVal(okk))))
        else:
            post = z3.BoolVal(False)
        napp = sum(1 for m in range(M) if z3.is_true(ctx.value(apps[m])))
        info = dict(methods=[", ".join(tstr(a) for a in m) for m in methods], call=[tstr(a) for a in args], outcome=list(out),
                    same_through_recurse=(sane if via_recurse else None), keyword_only=kwonly)
        return Verdict(post, known, info, [out[0]], nontrivial=napp >= 2)

    return run


def gen_shapes(tier, seed):
    rng = random.Random(seed)
    n = 3
    K0, K1, K2 = ("K", 0), ("K", 1), ("K", 2)
    A0 = [("obj",), K0, K1, ("type", ("obj",)), ("baretype",), ("type", K0), ("type", K1),
          ("type", ("list", K0)), ("type", ("list", K1)), ("type", ("list", ("obj",))),
          ("type", ("dict", K0, K1)), ("type", ("dict", K1, K0)), ("type", ("list", ("list", K0))),
          ("type", ("tuple", K0, K1)), ("type", ("tuple", K0)), ("typeany",), ("type", ("list", ("any",))), ("type", ("dict", K0, ("any",))), ("metak",)]
    A1 = [K0, K1, ("obj",)]
    P0 = [("cls", K2), ("cls", K0), ("cls", ("list", K2)), ("cls", ("list", K0)), ("cls", ("list", ("list", K2))),
          ("cls", ("dict", K2, K2)), ("cls", ("dict", K0, K2)), ("cls", ("mylist", K2)), ("cls", ("any",)),
          ("inst", 2), ("inst", -1), ("cls", ("obj",)), ("cls", ("tuple", K2)), ("cls", ("tuple", K2, K2)),
          ("cls", ("tuple", K0, K2)), ("cls", ("bare", "mylist")), ("cls", ("bare", "list")), ("cls", ("bare", "dict")),
          ("cls", ("bare", "intkeyed")), ("cls", ("intkeyed", K2)), ("cls", ("km",)), ("cls", ("kmsub",)), ("cls", ("list", ("any",))), ("cls", ("dict", K2, ("any",)))]
    P1 = [("inst", 2), ("inst", 0)]
    one2 = [dict(n=n, methods=[[a], [b]], args=[p]) for a in A0 for b in A0 for p in P0]
    one3 = [dict(n=n, methods=[[a], [b], [c]], args=[p]) for a in A0 for b in A0 for c in A0 for p in P0]
    two = [dict(n=n, methods=[[a, x], [b, y]], args=[p, q]) for a in A0 for b in A0 for x in A1 for y in A1 for p in P0 for q in P1]
    # type[...] as a member of a union (next to a plain class): the position must still be keyed by the passed type; only against a
    # catch-all method (the order of unions among themselves is C12's subject)
    UN = [("union", ("type", K0), K1), ("union", K1, ("type", K0)), ("union", ("type", ("list", K0)), K1), ("union", ("type", K0), ("type", ("list", K1)))]
    uni = [dict(n=n, methods=[[u], [("obj",)]], args=[p]) for u in UN for p in P0 + [("inst", 1), ("inst", 0)]]
    pun = [dict(n=n, kind="punion", ann=T, members=[a, b], spelling=sp) for T in (K0, K1, ("list", K0)) for a in range(n) for b in range(n) if a != b
           for sp in ("pipe", "typing", "optional")]
    late2 = [dict(sh, late=True) for sh in one2 if sh["args"][0][0] == "cls"]
    rng.shuffle(late2)
    kw2 = [dict(sh, kwonly=True) for sh in one2]
    total = len(one2) + len(one3) + len(two) + len(kw2) + len(uni) + len(late2) + len(pun)
    rng.shuffle(kw2)
    rng.shuffle(one2)
    rng.shuffle(one3)
    rng.shuffle(two)
    if tier == "quick":
        shapes = one2[:700] + one3[:500] + two[:400] + kw2[:300] + uni + late2[:250] + pun
    else:
        shapes = one2 + one3[:8000] + two[:8000] + kw2 + uni + late2 + pun
    return shapes, total, True


def explore_shape(shape, tier="quick", seed=0, budget_s=60, validate=0):
    return runner.explore_symbolic(make_world, make_run, shape, seed=seed,
                                   deadline=time.time() + budget_s, validate=validate)


def replay(rec):
    return runner.replay_record(sys.modules[__name__], rec)


def main(tier, seed):
    t0 = time.time()
    runner.assert_real_code()
    shapes, total, sampled = gen_shapes(tier, seed)
    kw = dict(tier=tier, seed=seed, budget_s=60, validate=1)
    results = runner.pmap("props.c14", "explore_shape", shapes, kw, chunksize=8)
    return runner.finish(
        PID, tier, seed, t0, results,
        bounds=dict(classes=3, methods="2-3", positions="1-2 (type position + plain position); the type-valued parameter positional or keyword-only; a family registering the type[...] methods after the function's first use",
                    annotations="object, Ki, type, type[object], type[Ki], type[list[Ki]], type[list[object]], type[dict[Ki,Kj]], type[list[list[Ki]]], type[tuple[Ki]], type[tuple[Ki,Kj]]",
                    passed="union objects Ki | Kj / typing.Union / Optional (safety direction only); Ki, list[Ki], list[list[Ki]], dict[Ki,Kj], tuple[Ki], tuple[Ki,Kj], MyList[Ki] (list subclass origin), typing.Any, object, instances",
                    priorities="unbounded integers (symbolic)", hierarchy="every partial order on 3 classes (symbolic)"),
        rule="one state = one (method set, passed objects) x class of (hierarchy, priorities); non-trivial = >=2 methods applicable",
        stubs=["SymMeta classes", "SymInt priorities"],
        dont_care=["annotations whose generic origins differ (MyList[...] vs list[...]) are not used as annotations: only passed"],
        assumptions=["inherits the recorded finding C02-integer-levels (same exclusion predicate)"],
        shapes_total=total, shapes_sampled=sampled, mod=sys.modules[__name__],
    )
