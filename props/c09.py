"""C09 -- source rewriting changes nothing except the recurse/call_next call sites.

Enumerated (programs): method bodies produced by a grammar that places recurse(...), call_next(...) and self-name
calls in every expression context; each body sits on top of a small linear method chain whose meaning is known
without consulting ovld.
Symbolic (CrossHair / z3): the int / bool arguments that steer each body's control flow.
Oracle: the SAME source text compiled unchanged in a namespace where `recurse` (and the function's own name) is a
plain-Python reference dispatcher (an isinstance chain) and `call_next` the statically known next body.  Compared:
result or exception type, the global order of tick() side effects, generator laziness, values seen through closures
and defaults, file name and relative line number of a raised exception.  Acceptance: registration + first call of
every generated body must not raise SyntaxError / UsageError.
"""

import random
import sys

from lib import xhrun

PID = "C09"
KNOWN = {"comp_iterable": "C09-comprehension-iterable", "genexp": "C09-comprehension-iterable",
         "callnext_star": "C09-call-next-star-args", "callnext_kwstar": "C09-call-next-star-args",
         "callnext_keyword": "C09-call-next-star-args"}

# (name, number of positionals, body lines of method A; may use x, (y), recurse, call_next, F, tick, K (closure), DFLT)
BODIES = [
    ("plain", 1, ["return ('A', recurse(x - 1)) if x > 0 else call_next(x)"]),
    ("nested_call", 1, ["if x > 1:", "    return recurse(recurse(x - 2)[1] if isinstance(recurse(x - 2), tuple) else 0)", "return call_next(x)"]),
    ("arg_once", 1, ["if x > 0:", "    return recurse(tick(x - 1))", "return call_next(tick(x))"]),
    ("arg_order", 2, ["if x > 0:", "    return recurse(tick(x - 1), tick(y))", "return call_next(tick(y), tick(x))"]),
    ("comp_element", 1, ["return [recurse(i) for i in range(x)] + [call_next(x)]"]),
    ("comp_condition", 1, ["return [i for i in range(x + 1) if call_next(i)[1] % 2 == 0]"]),
    ("comp_iterable", 1, ["return [v for v in call_next(x)]"]),
    ("comp_nested", 1, ["return [[call_next(j) for j in range(i)] for i in range(x)]"]),
    ("dict_set_comp", 1, ["return ({i: call_next(i) for i in range(x)}, sorted({call_next(i)[1] for i in range(x)}))"]),
    ("lambda_", 1, ["g = lambda v: recurse(v - 1) if v > 0 else call_next(v)", "return g(x)"]),
    ("nested_def", 1, ["def inner(v, k=2):", "    return call_next(v) if v < k else recurse(v - k)", "return inner(x)"]),
    ("conditional", 1, ["return recurse(x - 1) if x > 2 else (call_next(x) if x > 0 else ('zero', tick(0)))"]),
    ("boolean_ops", 1, ["return (x > 1 and recurse(x - 2)) or call_next(x)"]),
    ("fstring", 1, ["return f\"<{call_next(x)[1]}:{recurse(x - 1) if x > 0 else '-'}>\""]),
    ("keyword_arg", 1, ["return recurse(x=x - 1) if x > 0 else call_next(x)"]),
    ("callnext_keyword", 1, ["return call_next(x=x)"]),
    ("star_args", 1, ["a = [x - 1]", "return recurse(*a) if x > 0 else call_next(x)"]),
    ("kwstar_recurse", 1, ["d = {'x': x - 1}", "return recurse(**d) if x > 0 else call_next(x)"]),
    ("callnext_star", 1, ["a = [x]", "return call_next(*a)"]),
    ("callnext_kwstar", 1, ["d = {'x': x}", "return call_next(**d)"]),
    ("walrus", 1, ["if x > 0 and (r := recurse(x - 1)) is not None:", "    return ('w', r)", "return (n := call_next(x), n)[1]"]),
    ("try_finally", 1, ["try:", "    return recurse(x - 1) if x > 0 else call_next(x)", "finally:", "    tick('fin')"]),
    ("try_except", 1, ["try:", "    if x == 2:", "        raise KeyError(x)", "    return call_next(x)", "except KeyError:", "    return ('caught', recurse(x - 1))"]),
    ("generator", 1, ["tick('start')", "for i in range(x):", "    yield list(recurse(i)) if i % 2 else call_next(i)", "tick('end')"]),
    ("genexp", 1, ["return sum(v[1] for v in (call_next(i) for i in range(x)))"]),
    ("closure", 1, ["return (K, recurse(x - K)) if x >= K else call_next(x + K)"]),
    ("closure_inner", 1, ["def inner():", "    return recurse(x - K) if x >= K else call_next(x)", "return inner()"]),
    ("nested_class_body", 1, ["class Box:", "    v = recurse(x - 1) if x > 0 else call_next(x)", "return ('A', Box.v)"]),
    # a nested lambda / def whose PARAMETER is called like the function (or like recurse): inside it the name is the parameter
    ("shadowing_lambda", 1, ["bump = lambda F: F + 1", "return (bump(x), recurse(x - 1)) if x > 0 else call_next(x)"]),
    ("shadowing_default", 1, ["g = lambda v, recurse=recurse: recurse(v - 1) if v > 0 else 0", "pick = lambda recurse: recurse",
                              "return (pick(x), g(x), recurse(x - 1)) if x > 0 else call_next(x)"]),
    ("shadowing_def", 1, ["def twice(recurse):", "    return recurse * 2", "return (twice(x), recurse(x - 1)) if x > 0 else call_next(x)"]),
    ("sentinel_default", 1, ["return (scale is SENT, len(BOX), call_next(x) if x < 2 else recurse(x - 2))"]),
    ("lambda_default", 1, ["return (scale(x), call_next(x) if x < 2 else recurse(x - 2))"]),
    ("default_arg", 1, ["return (scale, call_next(x * scale) if x < 2 else recurse(x - 2))"]),
    ("self_name", 1, ["return ('self', F(x - 1)) if x > 0 else call_next(x)"]),
    ("raises_after", 1, ["v = call_next(x)", "if x == 1:", "    raise ValueError(v)", "", "return recurse(x - 1) if x > 1 else v"]),
    ("raises_in_callee", 1, ["return recurse('boom') if x == 2 else call_next(x)"]),
    ("other_type", 1, ["return recurse(str(x)) if x % 2 else (recurse(None), call_next('s'))"]),
    ("subscript_attr", 1, ["return (call_next(x)[0], recurse(x - 1)[0] if x > 0 else '', (call_next(x),)[0].__class__.__name__)"]),
    ("while_loop", 1, ["acc = []", "i = x", "while i > 0:", "    acc.append(call_next(i))", "    i -= 1", "return acc or recurse(x + 4)[:1] if x < 0 else acc"]),
    ("global_shadow", 1, ["tick2 = tick", "return (tick2('t'), call_next(x), [recurse for recurse in (1, 2)] if False else 0)[:2]"]),
    ("decorated_inner", 1, ["def deco(fn):", "    return lambda v: ('deco', fn(v))", "@deco", "def inner(v):", "    return call_next(v)", "return inner(x)"]),
    ("chained_cmp", 1, ["return 0 <= call_next(x)[1] < 3 and recurse(x - 1) if x > 0 else call_next(x)"]),
    ("unary_binop", 1, ["return -call_next(x)[1] + (recurse(x - 1)[1] if x > 0 and isinstance(recurse(x - 1), tuple) else 0) * 2"]),
    ("nested_two", 2, ["if x > 0 and y > 0:", "    return recurse(x - 1, call_next(y - 1, x)[1])", "return call_next(x, y)"]),
    ("closure_multiline_string", 1, ['s = """a', '        b"""', "return (s, recurse(x - K)) if x >= K else (s, call_next(x))"]),
    ("param_named_type", 2, ["type = y", "if x > 0:", "    return ('A', recurse(x - 1, type))", "return call_next(x, type)"]),
    ("closure_two", 1, ["return (K - J, recurse(x - K)) if x >= K else call_next(x + J)"]),
    ("kwonly_order", "kw", ["if x > 0:", "    return recurse(x - 1, b=tick(('b', x)), a=tick(('a', x)))", "return call_next(x, b=tick('nb'), a=tick('na'))"]),
    ("recurse_and_self", 1, ["if x > 1:", "    return (recurse(x - 1), F(x - 2))", "return call_next(x)"]),
    ("raises_at_site", 1, ["v = call_next(x)", "if x == 2:", "    return recurse(x, x)", "", "", "if x == 3:", "    return (v,", "            call_next(x, v))", "return v"]),
    # a plain-name argument is rebound while a LATER argument is evaluated: the earlier argument keeps the value it had
    ("rebind_walrus", 2, ["if x > 0:", "    return ('A', recurse(y, (y := x - 1)))", "return call_next(x, y)"]),
    ("rebind_nonlocal", 2, ["def bump():", "    nonlocal x", "    x += 10", "    return y", "return ('A', call_next(x, bump()))"]),
    ("self_then_recurse", 1, ["if x > 1:", "    return (F(x - 2), recurse(x - 1))", "return call_next(x)"]),
    ("first_class_value", 1, ["return list(map(recurse, range(x))) + [call_next(x)]"]),
    ("star_arguments", 1, ["if x > 0:", "    return ('A', recurse(*[x - 1]))", "return call_next(x)"]),
    ("two_pos_mixed", 2, ["if y > 0:", "    return recurse(x, y - 1)", "return call_next(y, x)"]),
]


def module_for(name, npos, body, tier):
    kwonly = npos == "kw"
    if kwonly:
        npos = 1
    params = "x: int" if npos == 1 else "x: int, y: int"
    argn = "x" if npos == 1 else "x, y"
    KW = ", *, a=None, b=None" if kwonly else ""
    is_gen = any("yield" in ln for ln in body)
    closure = name.startswith("closure")
    dflt = name == "default_arg"
    lam = name == "lambda_default"      # a default value that is itself a code object (lambda) of the definition
    sent = name == "sentinel_default"   # defaults whose IDENTITY matters: a module-level sentinel, a shared mutable object
    L = []
    L.append("import inspect, textwrap, types, sys as _sys")
    L.append("from ovld import Ovld, recurse, call_next")
    L.append("from ovld.utils import UsageError")
    L.append("TICKS = []\n\ndef tick(v):\n    TICKS.append(v)\n    return v\n")
    L.append("DFLT = 3\nSENT = object()\nBOX = []")
    hdr = f"def A({params}" + (", *, scale=DFLT" if dflt else ", *, scale=(lambda v: v * 10)" if lam else ", *, scale=SENT, box=BOX" if sent else "") + KW + "):"
    if closure:
        L.append("def _factory(K, J=7):\n    " + hdr + "\n" + "\n".join("        " + ln for ln in body) + "\n    return A\n\nA = _factory(2)\n")
    else:
        L.append(hdr + "\n" + "\n".join("    " + ln for ln in body) + "\n")
    other = "x: int" if npos == 1 else "x: int, y: int"
    oth_o = "x: object" if npos == 1 else "x: object, y: object"
    oth_s = "x: str" if npos == 1 else "x: str, y: object"
    L.append(f"def B({other}{KW}):\n    tick('B')\n    return ('B', x)\n")
    L.append(f"def S({oth_s}{KW}):\n    tick('S')\n    if x == 'boom':\n        raise RuntimeError('boom')\n    return ('S', x)\n")
    L.append(f"def C({oth_o}{KW}):\n    tick('C')\n    return ('C', x)\n")
    L.append("ACCEPT_ERROR = None\nOV = Ovld()\ntry:\n    OV.register(A, priority=1)\n    OV.register(B)\n    OV.register(S)\n    OV.register(C, priority=-1)\n"
             "    F = OV.dispatch\nexcept Exception as _e:\n    ACCEPT_ERROR = type(_e).__name__ + ': ' + str(_e)[:80]\n    F = None\n")
    # reference: the same source text, names bound to plain callables
    two = npos == 2
    L.append("def _isint(v):\n    return isinstance(v, int)\n")
    if two:
        L.append("def REF(x, y):\n    if _isint(x) and _isint(y):\n        return A_ref(x, y)\n    if isinstance(x, str):\n        return S(x, y)\n    return C(x, y)\n")
        L.append("def NEXT_A(x, y):\n    if _isint(x) and _isint(y):\n        return B(x, y)\n    return REF(x, y)\n")
    else:
        L.append("def REF(x, **kw):\n    if _isint(x):\n        return A_ref(x, **kw)\n    if isinstance(x, str):\n        return S(x, **kw)\n    return C(x, **kw)\n")
        L.append("def NEXT_A(x, **kw):\n    if _isint(x):\n        return B(x, **kw)\n    return REF(x, **kw)\n")
    # (the reference must see the source text exactly as written: an indented definition is wrapped in a block instead of being dedented,
    # which would also alter the continuation lines of multi-line string literals)
    L.append("_raw = inspect.getsource(A)\n_REF_OFF = 2 if _raw[:1] in ' \\t' else 1\n_src = ('if True:\\n' + _raw) if _REF_OFF == 2 else _raw\n_ns = dict(recurse=REF, call_next=NEXT_A, F=REF, tick=tick, DFLT=DFLT, K=2, J=7, SENT=SENT, BOX=BOX)\n"
             "exec(compile(_src, '<reference>', 'exec'), _ns)\nA_ref = _ns['A']\n")
    L.append('''
def _run(fn, *args):
    del TICKS[:]
    try:
        r = fn(*args)
        if isinstance(r, types.GeneratorType):
            lazy = list(TICKS)          # nothing may have run yet
            r = ("gen", lazy, list(r))
        out = ("ret", repr(r))
    except (SyntaxError, UsageError) as e:
        out = ("REJECTED", type(e).__name__)
    except Exception as e:
        tb = e.__traceback__
        where = None
        while tb is not None:
            co = tb.tb_frame.f_code
            base = co.co_name.split(".")[-1]
            if co.co_filename == "<reference>" and base == "A":
                where = ("line", tb.tb_lineno - _REF_OFF)
            elif base.startswith("A[int"):
                # the rewritten method must report the original file and the original (absolute) line
                where = ("line", tb.tb_lineno - A.__code__.co_firstlineno) if co.co_filename == __file__ else ("wrong file", co.co_filename)
            tb = tb.tb_next
        out = ("exc", type(e).__name__, where)
    return out, list(TICKS)
''')
    warm = "[(0,), (1,), (2,), (3,), ('a',), (None,), (True,)]" if not two else "[(0, 0), (1, 1), (2, 0), ('a', 1), (None, 2), (1, 'a'), (True, 1)]"
    L.append(f"if F is not None:\n    for _a in {warm}:\n        _r = _run(F, *_a)\n        if _r[0][0] == 'REJECTED' and ACCEPT_ERROR is None:\n            ACCEPT_ERROR = str(_r[0])\n")
    L.append('def check_accepted() -> bool:\n    """\n    post: _\n    """\n    return ACCEPT_ERROR is None\n')
    hi = 3 if tier == "quick" else 4
    pre = f"0 <= x <= {hi}" + (f" and 0 <= y <= {hi}" if two else "")
    sig = "x: int" if not two else "x: int, y: int"
    L.append(f'def check_same({sig}) -> bool:\n    """\n    pre: {pre}\n    pre: ACCEPT_ERROR is None\n    post: _\n    """\n    return _run(F, {argn}) == _run(A_ref, {argn})\n')
    L.append(f'def reach_runs({sig}) -> bool:\n    """\n    pre: {pre}\n    pre: ACCEPT_ERROR is None\n    post: not _\n    """\n    return _run(F, {argn})[0][0] in ("ret", "exc")\n')
    return "\n".join(L) + "\n"


CELL_MODULE = '''
from ovld import Ovld, recurse, call_next

# a rewritten method stays a closure over the SAME variables as its source: writes through nonlocal are seen by the other closures of the
# factory, and later rebinding by the factory is seen by the method
def _factory(K):
    def A(x: int):
        nonlocal K
        K += 1
        return (K, recurse(x - 1)) if x > 0 else call_next(x)

    def peek():
        return K

    def poke(v):
        nonlocal K
        K = v
    return A, peek, poke


A, PEEK, POKE = _factory(100)


def B(x: object):
    return ("B", x)


OV = Ovld()
OV.register(A)
OV.register(B)
F = OV.dispatch
for _a in (0, 1, "a"):
    F(_a)


def check_cells(x: int, v: int) -> bool:
    """
    pre: 0 <= x <= 3
    post: _
    """
    POKE(v)
    r = F(x)
    # A runs x + 1 times (x, x-1, ..., 0): the shared variable ends at v + x + 1 and the outermost entry saw v + 1
    return PEEK() == v + x + 1 and (r[0] == v + 1 if x > 0 else r == ("B", 0))


def reach_cells(x: int, v: int) -> bool:
    """
    pre: 0 <= x <= 3
    post: not _
    """
    POKE(v)
    return F(x)[0] == v + 1 and x == 2
'''


def gen_harnesses(tier, seed):
    hs = [(f"c09_{name}", module_for(name, npos, body, tier), dict(body=name, lines=body)) for name, npos, body in BODIES]
    hs.append(("c09_shared_closure_cells", CELL_MODULE, dict(body="shared_closure_cells", lines=["nonlocal K", "K += 1"])))
    return hs


def replay(rec):
    from props.c10 import replay as r10

    return r10(rec)


def _native(bodyname):
    """replay the stored witness of a known finding: does the body still get rejected / diverge?"""
    def f():
        import os
        import shutil
        import tempfile

        from xh import driver

        name, npos, body = next(b for b in BODIES if b[0] == bodyname)
        src = driver.HEADER.format(src=driver.OVLD_SRC) + module_for(name, npos, body, "quick")
        d = tempfile.mkdtemp(prefix="ovld-xh-known-")
        try:
            p = os.path.join(d, f"c09_{name}.py")
            open(p, "w").write(src)
            bad, detail = driver.replay_native(p, "check_accepted()")
            return bool(bad)
        finally:
            shutil.rmtree(d, ignore_errors=True)
    return f


def _native_same(bodyname, call):
    def f():
        import os
        import shutil
        import tempfile

        from xh import driver

        name, npos, body = next(b for b in BODIES if b[0] == bodyname)
        src = driver.HEADER.format(src=driver.OVLD_SRC) + module_for(name, npos, body, "quick")
        d = tempfile.mkdtemp(prefix="ovld-xh-known-")
        try:
            p = os.path.join(d, f"c09_{name}.py")
            open(p, "w").write(src)
            bad, detail = driver.replay_native(p, call)
            return bool(bad)
        finally:
            shutil.rmtree(d, ignore_errors=True)
    return f


NATIVE_WITNESSES = {"c09_comp_iterable": _native("comp_iterable"), "c09_callnext_star": _native("callnext_star"),
                    "c09_recurse_kw": _native_same("keyword_arg", "check_same(1)")}


def main(tier, seed):
    from lib import runner

    active = runner.active_known_ids(PID)
    hs = [h for h in gen_harnesses(tier, seed) if not (KNOWN.get(h[2]["body"]) in active)]
    skipped = [b[0] for b in BODIES if KNOWN.get(b[0]) in active]
    return xhrun.main(
        PID, tier, seed, hs,
        bounds=dict(bodies=len(hs), contexts=[h[2]["body"] for h in hs], inputs="int arguments 0..%d (each position), symbolic" % (3 if tier == "quick" else 4),
                    chain="A (body under test, priority 1) -> B(int) -> C(object, priority -1), S(str)"),
        rule="one state = one check condition confirmed over all paths; non-trivial = bodies whose reachability twin has a witness",
        dont_care=["aliasing (cn = call_next) is not a call placement"],
        assumptions=["the program quantifier is enumerated (a fixed grammar sample); only the input quantifier is decided by the solver",
                     "bodies listed in a recorded known finding are excluded by name (specific call site): " + ", ".join(skipped)],
        mod=sys.modules[__name__],
    )
