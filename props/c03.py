"""C03 -- the dispatcher passes arguments, defaults, results and errors through intact.

Symbolic: subclass relation R and priorities (they decide which method is selected).
Enumerated: signature sets (required / optional / positional-only positionals, required / optional keyword-only
parameters, functions and methods with self, uniform or differing positional names) and call shapes.
Oracle: inspect.signature(original).bind(...) + apply_defaults() on the method that ran (identity comparison),
sentinel result / exception identity, self identity; closed-form non-rejection.
"""

import inspect
import itertools
import random
import sys
import time

import z3

from lib import runner
from symx.engine import Verdict
from symx.kit import GRule, MethodSet
from symx.world import World

PID = "C03"
KNOWN_EMPTY = "C03-empty-call"


def _native_empty_call():
    from ovld import Ovld

    def f(x: int = 1):
        return x
    ov = Ovld()
    ov.register(f)
    try:
        return ov.dispatch() != 1
    except TypeError as e:
        return str(e).startswith("No method")


NATIVE_WITNESSES = {"c03_empty_call": _native_empty_call}


def make_world(ex, shape, real):
    if shape.get("family") == "nested":
        return World(ex, 3, nprio=3, real=real)
    return World(ex, shape["n"], nprio=len(shape["methods"]), real=real)


_MS = {}


def specs(shape):
    n = shape["n"]
    out = []
    for m, md in enumerate(shape["methods"]):
        term = lambda t: ("obj",) if t == n else ("K", t)  # noqa: E731
        body = f"if RAISE[0]:\n    raise EXC[{m}]\nreturn RET[{m}]"
        if md.get("rewritten"):
            # mentions recurse (never executed): the method goes through ovld's source rewriter, which must carry over
            # defaults, keyword-only defaults and annotations
            body = f"if RAISE[0] == 'never':\n    return recurse()\n" + body
        out.append(dict(pos=[(nm, term(t), opt) for nm, t, opt in md["pos"]], posonly=md.get("posonly", 0),
                        kw=[(nm, term(t), opt) for nm, t, opt in md.get("kw", [])], body=body,
                        selfarg=shape.get("selfarg", False)))
    return out


class Sentinel:
    def __init__(self, name):
        self.name = name

    def __repr__(self):
        return self.name


class Boom(AssertionError):
    """the selected method's own error (an AssertionError: the kind of error the library raises itself while building)"""


NESTED_BODIES = {
    # calls made from inside a method (recurse / call_next are rewritten into inlined lookups with temporaries): every argument object must
    # arrive in its own position, also when one rewritten call is an argument of another
    "outer_inner_last": "return recurse(A0, recurse(A1, y))",
    "outer_inner_first": "return recurse(recurse(A1, y), A0)",
    "siblings_one_line": "return (recurse(A0, y), recurse(A1, A0))",
    "three_deep": "return recurse(A0, recurse(A1, recurse(A0, y)))",
    "inner_both": "return recurse(recurse(A0, y), recurse(A1, y))",
    "call_next_in_recurse": "return recurse(A0, call_next(x, A1))",
}
_NESTED_MS = {}


def make_run_nested(W, shape):
    """methods m0(x: K0, y), m1(x: K1, y), catch-all m2(x: object, y) (all log and return a fresh token), a driver on K2 whose body is one of
    NESTED_BODIES.  Whatever the hierarchy selects, the i-th logged entry must have received exactly the objects the i-th executed call site
    supplied (the expected sequence is computed from the body by ordinary evaluation order with plain callables)."""
    from ovld import Ovld

    body = NESTED_BODIES[shape["body"]]
    ms = _NESTED_MS.get(shape["body"])
    if ms is None:
        tok = "TOK.append(object())\nreturn TOK[-1]"
        ms = _NESTED_MS[shape["body"]] = MethodSet([
            dict(pos=[("x", ("K", 0), False), ("y", ("obj",), False)], body=tok),
            dict(pos=[("x", ("K", 1), False), ("y", ("obj",), False)], body=tok),
            dict(pos=[("x", ("obj",), False), ("y", ("obj",), False)], body=tok),
            dict(pos=[("x", ("K", 2), False), ("y", ("obj",), False)], body=body),
        ])
    code = compile("def ref(x, y, recurse, call_next, A0, A1):\n    " + body, "<c03-nested-ref>", "exec")

    def run(ctx):
        TOK = []
        A0, A1 = W.K[shape["c0"]](), W.K[shape["c1"]]()
        hs, LOG, ns = ms.instantiate(W, extra=dict(TOK=TOK, A0=A0, A1=A1))
        ov = Ovld()
        for m in range(4):
            ov.register(hs[m], priority=0 if m < 3 else 1)      # (the driver outranks the others: K2() always reaches it)
        x, y = W.K[2](), object()
        out = None
        try:
            res = ov.dispatch(x, y)
            out = "ret"
        except TypeError as e:
            msg = str(e)
            out = "AMB" if msg.startswith("Ambiguous resolution") else "NOM" if msg.startswith("No method") else "TE:" + msg[:60]
        except RecursionError:
            out = "LOOP"
        entries = [(m, posv) for (m, posv, kwv, sv) in LOG]
        # expected argument objects per executed call site, in evaluation order: replay the body with plain callables that hand back the
        # tokens the real run produced, in order
        seq, toks = [], list(TOK)

        def plain(*a):
            seq.append(a)
            return toks[len(seq) - 1] if len(seq) - 1 < len(toks) else object()

        g = {}
        exec(code, g)
        try:
            g["ref"](x, y, plain, plain, A0, A1)
        except Exception:  # noqa: BLE001
            pass
        ok = True
        inner = [e for e in entries if e[0] != 3]
        if not entries or entries[0][0] != 3 or not (entries[0][1][0] is x and entries[0][1][1] is y):
            ok = False
        # a leaf that ran is a call site that completed (a site rejected by the dispatcher stops the body): compare in order
        for (m, posv), exp in zip(inner, seq):
            if len(posv) != len(exp) or not all(a is b for a, b in zip(posv, exp)):
                ok = False
        if out == "ret" and len(inner) != len(seq):
            ok = False
        if out.startswith("TE"):
            ok = False
        if out == "LOOP":
            ok = True          # a forwarded object is an instance of the driver's class in this hierarchy: the driver legitimately re-enters itself
        info = dict(body=body, A0=f"K{shape['c0']}()", A1=f"K{shape['c1']}()", outcome=out, entries=[m for m, _ in entries][:12],
                    received_as_written=ok)
        return Verdict(ok, (), info, [out[:3]], nontrivial=len(inner) >= 2 and out != "LOOP")

    return run


def make_run(W, shape, known_active=None):
    from ovld import Ovld

    if shape.get("family") == "nested":
        return make_run_nested(W, shape)
    if known_active is None:
        known_active = runner.active_known_ids(PID)
    n = shape["n"]
    methods = shape["methods"]
    M = len(methods)
    key = repr((methods, shape.get("selfarg")))
    ms = _MS.get(key)
    if ms is None:
        ms = _MS[key] = MethodSet(specs(shape))
    slf = shape.get("selfarg", False)
    calls = shape["calls"]
    allkw = sorted({nm for md in methods for nm, _, _ in md.get("kw", [])})
    kwfirst = allkw[0] if allkw else "k"
    uniform = shape.get("uniform", True)

    def rule_for(nargs, kwnames, poskw):
        """poskw: names of positional parameters passed by keyword (only when names are uniform)"""
        sup, elig = [], []
        for md in methods:
            pos = md["pos"]
            req = sum(1 for _, _, opt in pos if not opt)
            npos_given = nargs + len(poskw)
            ok = req <= npos_given <= len(pos)
            if poskw and md.get("posonly"):
                ok = False
            kwd = {nm: (t, opt) for nm, t, opt in md.get("kw", [])}
            for nm, (t, opt) in kwd.items():
                if not opt and nm not in kwnames:
                    ok = False
            for nm in kwnames:
                if nm not in kwd:
                    ok = False
            v = [t for _, t, _ in pos[:npos_given]] + [kwd[nm][0] for nm in kwnames if nm in kwd]
            sup.append(tuple(v))
            elig.append(ok)
        argcls = tuple(list(range(nargs + len(poskw))) + [0] * len(kwnames))
        for m in range(M):
            if len(sup[m]) != len(argcls):
                elig[m] = False
                sup[m] = tuple([n] * len(argcls))
        return GRule(sup, argcls, W.P, app=lambda t, c: W.rel(c, t), le=lambda t, u: W.rel(t, u), eligible=elig)

    def run(ctx):
        RET = [Sentinel(f"ret{m}") for m in range(M)]
        EXC = [Boom(f"boom{m}") for m in range(M)]
        RAISE = [False]
        hs, LOG, ns = ms.instantiate(W, extra=dict(RET=RET, EXC=EXC, RAISE=RAISE))
        ov = Ovld()
        for m in range(M):
            ov.register(hs[m], priority=W.prio[m])
        if slf:
            holder = type("Holder", (), {"f": ov})()
            fn = holder.f
        else:
            holder = None
            fn = ov.dispatch
        trace = []
        conj = []
        known_c = []   # per call: the expectation weakened by the recorded finding
        for ci, (nargs, kwnames, poskw, raising, must_accept) in enumerate(calls):
            args = [W.K[q]() for q in range(nargs)]
            kwargs = {nm: W.K[0]() for nm in kwnames}
            for qi, nm in enumerate(kwnames):
                # a keyword every method declares as object: pass the values a dispatcher could mistake for "not given"
                if all(t == n for md in methods for nm2, t, _ in md.get("kw", []) if nm2 == nm):
                    kwargs[nm] = (None, 0, False, "", (), ...)[(ci + qi) % 6]
            for q, nm in enumerate(poskw):
                kwargs[nm] = W.K[nargs + q]()
            RAISE[0] = bool(raising)
            del LOG[:]
            out = None
            try:
                res = fn(*args, **kwargs)
                out = ("ret", res)
            except Boom as e:
                out = ("boom", e)
            except TypeError as e:
                msg = str(e)
                out = ("AMB",) if msg.startswith("Ambiguous resolution") else ("NOM",) if msg.startswith("No method") else ("TE", msg[:90])
            except Exception as e:  # noqa: BLE001  anything else than the method's own error reached the caller
                out = ("OTHER", type(e).__name__)
            rule = rule_for(nargs, list(kwnames), list(poskw))
            rec = dict(call=f"f({nargs} positional, kw={sorted(kwargs)})", raising=bool(raising), outcome=out[0])
            if out[0] in ("ret", "boom"):
                ok = len(LOG) == 1
                if ok:
                    m, posv, kwv, selfv = LOG[0]
                    rec["method"] = m
                    sig = inspect.signature(hs[m])
                    try:
                        ba = sig.bind(*(([holder] if slf else []) + args), **kwargs)
                        ba.apply_defaults()
                    except TypeError as e:
                        ok = False
                        rec["bind_error"] = str(e)
                    if ok:
                        exp_pos = [ba.arguments[nm] for nm, _, _ in methods[m]["pos"]]
                        exp_kw = {nm: ba.arguments[nm] for nm, _, _ in methods[m].get("kw", [])}
                        ok = (len(posv) == len(exp_pos) and all(a is b for a, b in zip(posv, exp_pos))
                              and set(kwv) == set(exp_kw) and all(kwv[k] is exp_kw[k] for k in exp_kw)
                              and (selfv is holder))
                        ok = ok and ((out[0] == "ret" and out[1] is RET[m] and not raising)
                                     or (out[0] == "boom" and out[1] is EXC[m] and raising))
                        rec["bound_as_written"] = ok
                conj.append(z3.BoolVal(bool(ok)))
                known_c.append(conj[-1])
            elif out[0] == "AMB":
                conj.append(z3.BoolVal(not LOG))
                known_c.append(conj[-1])
            elif out[0] == "OTHER":
                # neither the method's own result / error nor one of the dispatcher's rejections
                rec["unexpected_exception"] = out[1]
                conj.append(z3.BoolVal(False))
                known_c.append(conj[-1])
            else:
                # the dispatcher's own rejection: only legitimate when no method is applicable to this call shape
                rec["rejection"] = out[1] if len(out) > 1 else out[0]
                rec["some_method_applicable_in_this_model"] = bool(z3.is_true(ctx.value(rule.any_app())))
                if (KNOWN_EMPTY in known_active and out[0] == "NOM" and nargs == 0 and not kwargs
                        and not any(not md["pos"] and not md.get("kw") for md in methods)):
                    # recorded: the empty call is only ever answered by a method declaring no parameter at all
                    known_c.append(z3.BoolVal(not LOG))
                    conj.append(z3.And(z3.BoolVal(not LOG), z3.Not(rule.any_app())))
                    continue_known = True
                else:
                    if must_accept:
                        conj.append(z3.And(z3.BoolVal(not LOG), z3.Not(rule.any_app())))
                    else:   # outside the documented positional/keyword rule: a rejection is legitimate
                        conj.append(z3.BoolVal(not LOG))
                    known_c.append(conj[-1])
                trace.append(rec)
                continue
            trace.append(rec)
        ran = sum(1 for t in trace if t["outcome"] in ("ret", "boom"))
        kn = [(KNOWN_EMPTY, z3.And(known_c))] if KNOWN_EMPTY in known_active else []
        return Verdict(z3.And(conj), kn, dict(trace=trace), [f"ran{ran}of{len(trace)}"], nontrivial=ran >= 1)

    return run


def gen_shapes(tier, seed):
    rng = random.Random(seed)
    n = 3
    out = []
    N = 1500 if tier == "quick" else 12000
    for _ in range(N):
        M = rng.choice((1, 2, 2, 3))
        uniform = rng.random() < 0.6
        selfarg = rng.random() < 0.3
        kwpool = rng.choice((["k", "j"], ["k", "j"], ["k", "type"], ["method", "j"], ["MISSING", "j"], ["k", "KWARGS"], ["OVLD", "TARGS"]))   # (names the generated entry point uses itself)
        posnames = rng.choice((["x", "y", "z"],) * 6 + (["OVLD", "MISSING", "z"], ["TARGS", "type", "method"]))
        if set(posnames) & set(kwpool):
            kwpool = ["k", "j"]
        methods = []
        maxpos = 0
        for m in range(M):
            npos = rng.choice((0, 1, 1, 2, 2, 3 if tier != "quick" else 2))
            nreq = rng.randint(0, npos)
            names = posnames[:npos] if uniform else [f"{'abc'[m]}{q}" for q in range(npos)]
            pos = [[names[q], rng.randrange(n + 1), q >= nreq] for q in range(npos)]
            posonly = npos if (npos and rng.random() < 0.25) else 0
            kw = []
            for nm in kwpool:
                r = rng.random()
                if r < 0.3:
                    kw.append([nm, rng.randrange(n + 1), False])
                elif r < 0.6:
                    kw.append([nm, rng.randrange(n + 1), True])
            methods.append(dict(pos=pos, posonly=posonly, kw=kw, rewritten=rng.random() < 0.5))
            maxpos = max(maxpos, npos)
        calls = []
        for nargs in range(0, maxpos + 1):
            for r in range(3):
                for kws in itertools.combinations(kwpool, r):
                    calls.append([nargs, list(kws), [], 0, True])
        minreq = min(sum(1 for p in md["pos"] if not p[2]) for md in methods)
        # documented: uniformly named positionals may be given as keywords -- unless more than one of them is optional
        # (then all positionals are strictly positional).  Calls outside the documented rule are generated too: the
        # dispatcher may reject them, but if it accepts one the method must still see the arguments as written.
        allowed = uniform and not any(md["posonly"] for md in methods) and maxpos - minreq <= 1 and all(len(md["pos"]) == maxpos for md in methods)
        if uniform and maxpos:
            for nargs in range(0, maxpos):
                names = posnames[nargs:maxpos]
                for k in range(1, len(names) + 1):
                    calls.append([nargs, [], names[:k], 0, bool(allowed)])
                # with a gap: an earlier optional positional omitted, a later one given by keyword (never in the documented
                # rule; if the dispatcher accepts it, the keyword must still arrive)
                for k in range(1, len(names)):
                    calls.append([nargs, [], names[k:], 0, False])
                    calls.append([nargs, [kwpool[0]] if kwpool[0] in [n_ for md in methods for n_, _, _ in md["kw"]] else [], names[k:k + 1], 0, False])
        rng.shuffle(calls)
        gaps = [c for c in calls if c[2] and not c[4]][:3]
        calls = gaps + [c for c in calls if c not in gaps][: 12 - len(gaps)]
        for c in calls[::3]:
            c[3] = 1
        out.append(dict(n=n, methods=methods, calls=calls, uniform=uniform, selfarg=selfarg))
    nested = [dict(n=3, family="nested", body=b, c0=c0, c1=c1) for b in NESTED_BODIES for c0 in (0, 1) for c1 in (0, 1)]
    return nested + out, N + len(nested), True


def explore_shape(shape, tier="quick", seed=0, budget_s=30, validate=0):
    return runner.explore_symbolic(make_world, make_run, shape, seed=seed,
                                   deadline=time.time() + budget_s, validate=validate)


def replay(rec):
    if rec.get("engine") == "crosshair":
        from props.c10 import replay as r10

        return r10(rec)
    return runner.replay_record(sys.modules[__name__], rec)


def e1_part(tier, seed):
    """value level: the generated dispatchers for value-dependent methods (if-chain, counting, lookup-table strategies) must pass results and
    exceptions through as well -- CrossHair on one-position method sets whose bodies raise a TypeError subclass on request"""
    import json
    import os

    from lib import xhrun
    from props.c11 import lit_ann, lit_bound
    from xh import gen

    hs = []
    rng = random.Random(seed + 77)
    for i in range(6 if tier == "quick" else 30):
        nlit = (2, 4, 5, 6, 3, 5)[i % 6]
        vals = rng.sample(range(-1, 9), nlit)
        methods = [dict(kind="ann", ann=lit_ann([v]), bound=lit_bound([v]), prio=0, pred=f"type(x) is not float and x == {v!r}") for v in vals]
        if i % 2:
            methods.append(dict(kind="dep", bound="int", pred="x > 4", prio=0))
        methods.append(dict(kind="static", bound="int", prio=0 if i % 3 else -1))
        methods.append(dict(kind="static", bound="object", prio=-2))
        checks = [("int", "int", None), ("bool", "bool", None)]
        hs.append((f"c03_passthrough_{i}", gen.one_position_module(methods, list(range(-2, 10)) + [True, False, "a"], checks),
                   dict(family="results and errors through value-dependent dispatchers", methods=methods)))
    code = xhrun.main(PID, tier, seed, hs, bounds=dict(values="int unbounded, bool"), rule="see symx part", mod=None)
    with open(os.path.join(runner.EVID, f"{PID}.json")) as fh:
        cov = json.load(fh)["coverage"]
    return code, {k: cov[k] for k in ("harness_modules", "check_conditions", "confirmed_over_all_paths", "inconclusive",
                                       "counterexamples_replayed", "reachability_witnessed", "samples") if k in cov}


def main(tier, seed):
    t0 = time.time()
    runner.assert_real_code()
    code_e1, cov_e1 = e1_part(tier, seed)
    shapes, total, sampled = gen_shapes(tier, seed)
    kw = dict(tier=tier, seed=seed, budget_s=20 if tier == "quick" else 60, validate=1)
    results = runner.pmap("props.c03", "explore_shape", shapes, kw, chunksize=2)
    code = runner.finish(
        PID, tier, seed, t0, results, extra=dict(value_level_part_crosshair=cov_e1),
        bounds=dict(classes=3, methods="1-3", positionals="0-2 (3 thorough), required/optional/positional-only, uniform or differing names",
                    keyword_only="two keyword names per set from {k, j, type, method}, required or optional", receivers="functions and methods with self",
                    nested_calls="6 driver bodies in which one rewritten recurse / call_next call is an argument of (or sits next to) another, x 4 choices "
                                 "of forwarded classes: every entered method must have received the objects its call site supplied",
                    calls="<= 10 call shapes per signature set: number of positionals x subset of keywords (+ uniformly named positionals "
                          "as keywords); a third of them make the method raise", signature_sets="random sample (seeded)"),
        rule="one state = one signature set x class of (hierarchy, priorities); non-trivial = at least one call ran a method",
        stubs=["SymMeta classes", "SymInt priorities"],
        dont_care=["call shapes naming a positional parameter by keyword when names differ between methods or a method is positional-only "
                   "(not generated)", "which method is selected (C02)"],
        assumptions=["the signature-set and call-shape quantifiers are enumerated (sampled), only hierarchy and priorities are symbolic"],
        shapes_total=total, shapes_sampled=sampled, mod=sys.modules[__name__],
    )
    return max(code, code_e1) if 1 not in (code, code_e1) else 1
