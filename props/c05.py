"""C05 -- after register / re-register / unregister, behaviour equals a freshly built function.

Symbolic: subclass relation R, priorities.
Enumerated: histories of register / unregister operations over a pool of candidate methods (two with identical
signatures), on the Ovld API and on the public MultiTypeMap API.
Oracle (differential): after every prefix, the probe on the mutated object == the probe on an object built
directly from the live method list, under the same model; after the last operation every class is probed.
"""

import itertools
import random
import sys
import time

import z3

from lib import runner
from symx.engine import Verdict
from symx.kit import MethodSet, full_outcome
from symx.world import World

PID = "C05"


def make_world(ex, shape, real):
    return World(ex, shape["n"], nprio=len(shape["pool"]), real=real)


_MS = {}


def specs(shape):
    n = shape["n"]
    out = []
    for m, md in enumerate(shape["pool"]):
        term = ("obj",) if md["t"] == n else ("K", md["t"])
        if md.get("typeann") is not None:
            term = ("type", ("K", md["typeann"]))       # annotated type[K]: makes the position "complex" for every method
        body = {"ret": f"return {m}", "next": f"return ({m}, call_next(x))",
                "rec": f"return ({m}, recurse(FW{m})) if x is not FW{m} else {m}"}[md["kind"]]
        out.append(dict(pos=[("x", term, False)], body=body))
    return out


_SHAPE_MS = MethodSet([
    dict(pos=[("x", ("K", 0), False)]),                                        # h0(x: K0)
    dict(pos=[("name", ("K", 1), False)]),                                     # h1(name: K1): another name at the first position
    dict(pos=[("x", ("K", 0), False), ("y", ("obj",), True)]),                 # h2(x: K0, y=default): an optional positional
    dict(pos=[("x", ("obj",), False)], kw=[("k", ("obj",), True)]),            # h3(x: object, *, k=default): a keyword-only parameter
    dict(pos=[("x", ("K", 1), False), ("y", ("obj",), False)]),                # h4(x: K1, y): two REQUIRED positionals
])


def _YES(x):
    return True


def _NO(x):
    return False


DEPS = [(True, None, None, False), (False, None, True, None), (None, True, None, False), (True, False, None, None), (False, None, None, True)]
ARITIES = [("one", "req", "opt", "kw"), ("opt", "one", "kw", "req"), ("one", "opt", "one", "opt"), ("kw", "one", "one", "kw"), ("req", "opt", "kw", "one")]


def make_run_shapes(W, shape):
    """methods that shape the entry point differently (names of the positionals, an optional positional, a keyword-only parameter) come and
    go: after every operation the function must accept and reject the same CALL SHAPES as one built afresh from the remaining methods"""
    from ovld import Ovld

    ops = shape["ops"]

    def run(ctx):
        a0, a1 = W.inst[0], W.inst[1]
        calls = [("f(K0())", lambda f: f(a0)), ("f(x=K0())", lambda f: f(x=a0)), ("f(K0(), K1())", lambda f: f(a0, a1)),
                 ("f(K0(), k=K1())", lambda f: f(a0, k=a1)), ("f(name=K1())", lambda f: f(name=a1)), ("f(K1())", lambda f: f(a1)),
                 ("f(x=K0(), y=K1())", lambda f: f(x=a0, y=a1))]
        hs, LOG, ns = _SHAPE_MS.instantiate(W)
        ov = Ovld()
        live, trace, ok = [], [], True
        for i, (op, m) in enumerate(ops):
            if op == "reg":
                ov.register(hs[m], priority=0)
                live.append(m)
            else:
                ov.unregister(hs[m])
                live.remove(m)
            if not live:
                continue
            hs2, LOG2, ns2 = _SHAPE_MS.instantiate(W)
            ref = Ovld()
            for mm in live:
                ref.register(hs2[mm], priority=0)
            for label, call in calls:
                got = full_outcome(lambda: call(ov.dispatch), LOG)
                exp = full_outcome(lambda: call(ref.dispatch), LOG2)
                # (rejections are compared by kind: the wording names the function)
                g = (got[0], got[1][:1] if got[1][0] == "EXC" else got[1])
                e = (exp[0], exp[1][:1] if exp[1][0] == "EXC" else exp[1])
                if g != e:
                    ok = False
                    trace.append(dict(after=f"{op} h{m}", live=list(live), call=label, got=got, fresh=exp))
        return Verdict(ok, (), dict(api="Ovld, call shapes", ops=ops, differences=trace[:6]), [f"ops{len(ops)}"], nontrivial=True)

    return run


def make_run(W, shape, known_active=None):
    from ovld import MultiTypeMap, Ovld
    from ovld.core import Signature

    if shape["api"] == "ovld-shapes":
        return make_run_shapes(W, shape)
    n = shape["n"]
    pool = shape["pool"]
    M = len(pool)
    ops = shape["ops"]
    api = shape["api"]
    key = repr(pool)
    ms = _MS.get(key)
    if ms is None:
        ms = _MS[key] = MethodSet(specs(shape))
    CH = [0, 1, n]

    def inst(c):
        if c == "cls":
            return W.K[0]            # a class passed as the argument (pools with a type[K] method)
        return W.inst[c] if c != n else object()

    def prio(m):
        # identical signatures must be able to carry equal priorities: pool entries may share a priority variable
        return W.prio[pool[m].get("p", m)]

    def run_ovld(ctx):
        def mk():
            extra = {f"FW{m}": (W.K[md["fwcls"]] if md.get("fwcls") is not None else inst(md["fw"]))
                     for m, md in enumerate(pool) if md["kind"] == "rec"}
            hs, LOG, ns = ms.instantiate(W, extra=extra)
            return Ovld(), hs, LOG

        def probe(ov, LOG, c):
            a = inst(c)
            if not hasattr(ov, "dispatch"):
                ov.ensure_compiled()          # (a bare copy has no public function object before its first build)
            return full_outcome(lambda: ov.dispatch(a), LOG)

        ov, hs, LOG = mk()
        target = ov
        if shape.get("linked"):
            # the changes are made on a parent that is itself never called; the calls go to a copy linked to it (linkback=True), whose
            # method set is the parent's: it must follow every change like a function built afresh from the resulting set
            ov = target.copy(linkback=True)
        live = []
        trace = []
        ok = True
        for i, (op, m) in enumerate(ops):
            if op == "reg":
                target.register(hs[m], priority=prio(m))
                live.append(m)
            else:
                target.unregister(hs[m])
                live.remove(m)
            last = i == len(ops) - 1
            sel = (shape["probes"][i] if not last else 0)
            probes = CH if last else ([CH[sel]] if sel < 3 else [])
            if live and any(md.get("typeann") is not None for md in pool):
                probes = list(probes) + ["cls"]
            for c in probes:
                got = probe(ov, LOG, c)
                ref, hs2, LOG2 = mk()
                for mm in live:
                    ref.register(hs2[mm], priority=prio(mm))
                exp = probe(ref, LOG2, c) if live else None
                if not live:
                    got = (got[0], got[1][:1])      # (the wording of the rejection names the function's generated identifier)
                trace.append(dict(after=f"{op} h{m}", probe=c, got=got, fresh=exp))
                if live and got != exp:
                    ok = False
                if not live and (got[0] or got[1][0] == "ret"):
                    ok = False          # nothing is registered any more: no method may run
        return Verdict(ok, (), dict(api="Ovld", trace=trace), [f"probes{len(trace)}"], nontrivial=len(trace) >= 2)

    arity = shape.get("arity")     # per method: one / req (a second required position) / opt (a second optional one) / kw (an optional keyword)

    def sig_of(m):
        t = W.cls(pool[m]["t"])
        mode = arity[m % len(arity)] if arity else "one"
        if mode in ("req", "opt"):
            return Signature(types=(t, W.cls(pool[(m + 1) % len(pool)]["t"])), return_type=None, req_pos=2 if mode == "req" else 1, max_pos=2,
                             req_names=frozenset(), vararg=False, priority=prio(m))
        if mode == "kw":
            return Signature(types=(t, ("flag", W.cls(pool[(m + 1) % len(pool)]["t"]))), return_type=None, req_pos=1, max_pos=1,
                             req_names=frozenset(), vararg=False, priority=prio(m))
        if dep and dep[m % len(dep)] is not None:
            from ovld import Dependent
            t = Dependent[t, _YES if dep[m % len(dep)] else _NO]
        return Signature(types=(t,), return_type=None, req_pos=1, max_pos=1, req_names=frozenset(), vararg=False,
                         priority=prio(m))

    dep = shape.get("dep")       # per method: None (plain) / True / False (value-dependent, with a condition that always / never holds)

    def run_mtm(ctx):
        def look1(tm, key, inst=None):
            try:
                fn = tm[key]
            except KeyError as e:
                grp = e.args[1] if len(e.args) > 1 else ()
                return ["AMB", sorted(getattr(x.handler, "__name__", x.handler) for x in grp)] if grp else ["NOM"]
            if not dep:
                return ["ret", fn]
            # the table hands out a function that chooses by value: call it
            try:
                return ["ret", fn(inst)]
            except TypeError as e:
                return ["TypeError", str(e)[:9]]
            except KeyError as e:      # (the table's own error, raised at call time when no condition holds)
                grp = e.args[1] if len(e.args) > 1 else ()
                return ["call-AMB", sorted(getattr(x.handler, "__name__", x.handler) for x in grp)] if grp else ["call-NOM"]

        def look(tm, c):
            if dep:
                return look1(tm, (W.cls(c),), W.inst[c] if c != W.n else object())
            if not arity:
                return look1(tm, (W.cls(c),))
            # every call shape the signatures admit: one position, two positions, one position and the keyword
            return [look1(tm, (W.cls(c),)), look1(tm, (W.cls(c), W.cls(c))), look1(tm, (W.cls(c), ("flag", W.cls(c))))]

        tm = MultiTypeMap()
        live = []
        trace = []
        ok = True
        def hname(m):
            if not dep:
                return f"h{m}"
            if m not in HS:
                def h(x, _m=m):
                    return f"h{_m}"
                h.__name__ = f"h{m}"
                HS[m] = h
            return HS[m]
        HS = {}
        for i, (op, m) in enumerate(ops):
            tm.register(sig_of(m), hname(m))
            live.append(m)
            last = i == len(ops) - 1
            sel = shape["probes"][i] if not last else 0
            probes = CH if last else ([CH[sel]] if sel < 3 else [])
            for c in probes:
                got = look(tm, c)
                ref = MultiTypeMap()
                for mm in live:
                    ref.register(sig_of(mm), hname(mm))
                exp = look(ref, c)
                trace.append(dict(after=f"register h{m}", probe=c, got=got, fresh=exp))
                if got != exp:
                    ok = False
        return Verdict(ok, (), dict(api="MultiTypeMap", trace=trace), [f"probes{len(trace)}"], nontrivial=len(trace) >= 2)

    return run_ovld if api == "ovld" else run_mtm


def histories(M, L, unreg=True):
    """valid op sequences: reg only if not live, unreg only if live; starts with a reg"""
    out = []

    def rec(seq, live):
        if len(seq) == L:
            out.append(list(seq))
            return
        for m in range(M):
            if m not in live:
                rec(seq + [("reg", m)], live | {m})
            elif unreg:
                rec(seq + [("unreg", m)], live - {m})

    rec([], frozenset())
    return out


def gen_shapes(tier, seed):
    rng = random.Random(seed)
    n = 3
    shapes = []
    pools = []
    for mt in itertools.product(range(n + 1), repeat=3):
        for ks in itertools.product(("ret", "next"), repeat=3):
            # h3 duplicates h0's signature (same type, same priority variable): re-registration of a present signature
            pools.append([dict(t=t, kind=k) for t, k in zip(mt, ks)] + [dict(t=mt[0], kind="ret", p=0)])
    for mt in itertools.product(range(n + 1), repeat=3):
        for fw in (0, 1):
            pools.append([dict(t=mt[0], kind="rec", fw=fw), dict(t=mt[1], kind="ret"), dict(t=mt[2], kind="ret"),
                          dict(t=mt[1], kind="next", p=1)])
    # pools whose late method is annotated type[K]: the recursive method forwards the CLASS K0
    tpools = []
    for mt in itertools.product(range(n + 1), repeat=2):
        for ta in range(n):
            tpools.append([dict(t=mt[0], kind="rec", fw=0, fwcls=0), dict(t=mt[1], kind="ret"), dict(t=n, kind="ret", p=1),
                           dict(t=n, kind="ret", typeann=ta)])
    H4 = histories(4, 4)
    H5 = histories(4, 5)
    all_ov = len(pools) * (len(H4) + len(H5))
    Hm = [h for h in histories(4, 3, unreg=False)] + histories(4, 4, unreg=False)
    mt_pools = [[dict(t=t, kind="ret") for t in mt] + [dict(t=mt[0], kind="ret", p=0)] for mt in itertools.product(range(n + 1), repeat=3)]
    all_mt = len(mt_pools) * len(Hm)
    total = all_ov + all_mt
    if tier == "quick":
        for _ in range(260):
            shapes.append(dict(n=n, api="ovld", pool=rng.choice(pools), ops=rng.choice(H4)))
        for _ in range(60):
            shapes.append(dict(n=n, api="ovld", pool=rng.choice(pools), ops=rng.choice(H5)))
        for _ in range(80):
            shapes.append(dict(n=n, api="ovld", pool=rng.choice(tpools), ops=rng.choice(H4)))
        for _ in range(160):
            shapes.append(dict(n=n, api="mtm", pool=rng.choice(mt_pools), ops=rng.choice(Hm)))
        for _ in range(100):
            shapes.append(dict(n=n, api="ovld", linked=True, pool=rng.choice(pools), ops=rng.choice(H4)))
        for _ in range(120):
            shapes.append(dict(n=n, api="mtm", pool=rng.choice(mt_pools), ops=rng.choice(Hm), arity=rng.choice(ARITIES)))
        for _ in range(120):
            shapes.append(dict(n=n, api="mtm", pool=rng.choice(mt_pools), ops=rng.choice(Hm), dep=rng.choice(DEPS)))
    else:
        for p in mt_pools[1::2]:
            for h in Hm[1::2]:
                shapes.append(dict(n=n, api="mtm", pool=p, ops=h, dep=rng.choice(DEPS)))
        for p in mt_pools[::2]:
            for h in Hm[::2]:
                shapes.append(dict(n=n, api="mtm", pool=p, ops=h, arity=rng.choice(ARITIES)))
        for _ in range(1500):
            shapes.append(dict(n=n, api="ovld", linked=True, pool=rng.choice(pools), ops=rng.choice(H4 + H5)))
        for _ in range(3000):
            shapes.append(dict(n=n, api="ovld", pool=rng.choice(pools), ops=rng.choice(H4)))
        for _ in range(2000):
            shapes.append(dict(n=n, api="ovld", pool=rng.choice(pools), ops=rng.choice(H5)))
        for _ in range(1200):
            shapes.append(dict(n=n, api="ovld", pool=rng.choice(tpools), ops=rng.choice(H4 + H5)))
        for p in mt_pools:
            for h in Hm:
                shapes.append(dict(n=n, api="mtm", pool=p, ops=h))
    for h in (histories(5, 4) if tier == "quick" else histories(5, 4) + histories(5, 5)):
        if any(op == "unreg" for op, _ in h):
            shapes.append(dict(n=n, api="ovld-shapes", pool=[], ops=h))
    if tier == "quick":
        keep = [sh for sh in shapes if sh["api"] == "ovld-shapes"]
        rng.shuffle(keep)
        shapes = [sh for sh in shapes if sh["api"] != "ovld-shapes"] + keep[:220]
    for sh in shapes:
        sh["probes"] = [rng.randrange(4) for _ in sh["ops"]]
    return shapes, total, True


def explore_shape(shape, tier="quick", seed=0, budget_s=120, validate=0):
    return runner.explore_symbolic(make_world, make_run, shape, seed=seed,
                                   deadline=time.time() + budget_s, validate=validate)


def replay(rec):
    return runner.replay_record(sys.modules[__name__], rec)


def main(tier, seed):
    t0 = time.time()
    runner.assert_real_code()
    shapes, total, sampled = gen_shapes(tier, seed)
    kw = dict(tier=tier, seed=seed, budget_s=60 if tier == "quick" else 200, validate=1)
    results = runner.pmap("props.c05", "explore_shape", shapes, kw, chunksize=2)
    return runner.finish(
        PID, tier, seed, t0, results,
        bounds=dict(classes=3, pool="4 candidate methods (one duplicating another's signature and priority)", positions=1,
                    history_length="4-5 register/unregister operations (Ovld); 3-4 registrations (MultiTypeMap)",
                    call_shapes="a family whose five methods shape the entry point differently (another positional name, an optional positional, a keyword-only "
                                "parameter, two required positionals): after every operation seven call shapes (positional / by keyword) are compared with a fresh build",
                    linked="a family in which the operations are applied to a parent that is never called itself and the probes go to a linkback copy of it",
                    probes="after each operation: one of K0 / K1 / object() / none (enumerated with the history, sampled); after the last: all three",
                    bodies="return | call_next(x) | recurse(other instance) | recurse(a class) next to a late type[K] method", priorities="unbounded integers (symbolic)",
                    hierarchy="every partial order (symbolic)"),
        rule="one state = one (pool, history) x class of (hierarchy, priorities); non-trivial = at least two probes",
        stubs=["SymMeta classes", "SymInt priorities"],
        dont_care=[],
        assumptions=["reference = object built from the live methods in the order of their (last) registration, same model"],
        shapes_total=total, shapes_sampled=sampled, mod=sys.modules[__name__],
    )
