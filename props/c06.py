"""C06 -- resolution is deterministic and ignores irrelevant context.

Symbolic: subclass relation R, priorities, the iteration order of every internal set of ovld (PermSet selectors),
the registration order (selector over permutations), presence of non-applicable extra methods (selector).
Enumerated: method sets (plain classes, Unions, Intersections, two dependent types on one bound).
Oracle (differential): canonical run (given order, insertion-ordered sets, no extras) vs solver-chosen variant,
both under the same model for R and priorities.
"""

import itertools
import random
import sys
import time

import z3

from lib import runner
from symx import order
from symx.engine import Verdict
from symx.kit import GRule, MethodSet, build, full_outcome, levels_mechanism, member, term_str
from symx.world import World

PID = "C06"
KNOWN_LEVELS = "C02-integer-levels-extras"
KNOWN_HOOKS = "C06-asymmetric-typeorder"


class Z:  # a concrete class unrelated to every harness class: methods on it are never applicable to the probes
    pass


def tt(x):
    return tuple(tt(y) for y in x) if isinstance(x, list) else x


def make_world(ex, shape, real):
    return World(ex, shape["n"], nprio=len(shape.get("methods") or shape.get("kwmethods") or shape.get("two") or [0, 0, 0]) + 2, real=real)


_MS = {}


_KW = {}


def make_run_kw(W, shape, known_active=None):
    """keyword-only dispatch: f(x, *, scale) called as f(a, scale=b); non-applicable extras require a keyword that is not
    supplied (`offset`), or declare no keyword at all"""
    from ovld import Ovld

    n = shape["n"]
    methods = shape["kwmethods"]      # list of (x type, scale type)
    M = len(methods)
    key = repr(methods)
    ms = _KW.get(key)
    if ms is None:
        def term(t):
            return ("obj",) if t == n else ("K", t)
        specs = [dict(pos=[("x", term(a), False)], kw=[("scale", term(b), False)]) for a, b in methods]
        specs.append(dict(pos=[("x", ("obj",), False)], kw=[("offset", ("obj",), False), ("scale", ("obj",), True)]))   # needs offset
        specs.append(dict(pos=[("x", ("obj",), False)], kw=[("offset", ("obj",), False)]))                            # needs offset only
        ms = _KW[key] = MethodSet(specs)
    perms = list(itertools.permutations(range(M)))
    order.install()

    def scenario(ctx, regorder, extras, extype):
        hs, LOG, ns = ms.instantiate(W)
        if extype is not None:
            hs[M].__annotations__ = dict(hs[M].__annotations__, x=extype, scale=extype)
        ov = Ovld()
        seq = list(regorder)
        if extras:
            seq.insert(min(1, len(seq)), M)
            seq.append(M + 1)
        for m in seq:
            ov.register(hs[m], priority=0)
        a, b = W.inst[0], W.inst[1]
        return full_outcome(lambda: ov.dispatch(a, scale=b), LOG)

    def run(ctx):
        order.MODE[0] = "canon"
        try:
            base = scenario(ctx, list(range(M)), False, None)
            dim = ctx.choose("dim", 3)
            p = ctx.choose("regperm", len(perms)) if dim == 0 else 0
            extras = dim == 1
            extype = W.K[ctx.choose("extype", n)] if extras else None
            order.MODE[0] = "sym" if dim == 2 else "canon"
            var = scenario(ctx, list(perms[p]), extras, extype)
        finally:
            order.MODE[0] = "canon"
        same = base == var
        info = dict(family="keyword-only", methods=methods, canonical=base, variant=var, regorder=list(perms[p]), extras=extras,
                    extra_types=(extype.__name__ if extype is not None else None))
        known = []
        if not same and extras and KNOWN_LEVELS in (known_active if known_active is not None else runner.active_known_ids(PID)):
            # the recorded integer-layer mechanism also applies per keyword: both outcomes must be rule-or-mechanism explained
            idx = [(a, b) for a, b in methods]
            rule = GRule(idx, (0, 1), [z3.IntVal(0)] * M, lambda t, c: W.rel(c, t), lambda t, u: W.rel(t, u))
            ok = True
            for out, with_extra in ((base, False), (var, True)):
                regs0 = [sorted({a for a, _ in methods} | ({extype._idx} if with_extra else set())),
                         sorted({b for _, b in methods} | ({extype._idx} if with_extra else set()))]
                ch, term = out
                if term[0] == "ret" and len(ch) == 1:
                    ok = ok and (ctx.decide(rule.wins(ch[0])) or (ctx.decide(z3.Not(rule.any_win())) and levels_mechanism(ctx, rule, regs0, ch[0])))
                elif term[0] == "AMB":
                    ok = ok and ctx.decide(z3.And(rule.any_app(), z3.Not(rule.any_win())))
                elif term[0] == "NOM":
                    ok = ok and ctx.decide(z3.Not(rule.any_app()))
                else:
                    ok = False
            known.append((KNOWN_LEVELS, ok))
        return Verdict(same, known, info, [base[1][0], "extras" if extras else "noextras"], nontrivial=len(base[0]) >= 1)

    return run


_DER = {}
ARRANGEMENTS = [            # (registered on the base, registered on a copy() of it); h0 and h1 share a signature, h1 is the current definition
    ([0, 1, 2], None), ([2, 0, 1], None), ([0, 2, 1], None),
    ([0], [1, 2]), ([2], [0, 1]), ([0, 2], [1]), ([0, 1], [2]), ([2, 0], [1]), ([], [0, 1, 2]), ([0], [2, 1]),
    # ... followed by a method on an unrelated class that is registered and unregistered again
    ([0, 1, 2], None, "churn"), ([2, 0, 1], None, "churn"), ([0], [1, 2], "churn"), ([], [0, 2, 1], "churn"),
]


def make_run_derived(W, shape, known_active=None):
    """the same three methods -- two with one signature, of which the later one is the current definition, and a third -- registered in
    different orders and at different moments (on a function, or partly on a function and partly on a copy() of it): the call must have one outcome"""
    from ovld import Ovld

    from symx import kit

    kit.RAW["Z"] = Z
    n = shape["n"]
    ta, tb = shape["derived"]
    key = repr((ta, tb))
    ms = _DER.get(key)
    if ms is None:
        def term(t):
            return ("obj",) if t == n else ("K", t)
        ms = _DER[key] = MethodSet([dict(pos=[("x", term(ta), False)]), dict(pos=[("x", term(ta), False)]), dict(pos=[("x", term(tb), False)]),
                                    dict(pos=[("x", ("raw", "Z"), False)])])

    def scenario(arr):
        hs, LOG, ns = ms.instantiate(W)
        base_regs, copy_regs = arr[0], arr[1]
        ov = Ovld()
        for m in base_regs:
            ov.register(hs[m], priority=0)
        if copy_regs is not None:
            ov = ov.copy()
            for m in copy_regs:
                ov.register(hs[m], priority=0)
        if len(arr) > 2:
            ov.register(hs[3], priority=0)
            ov.unregister(hs[3])
        a = W.inst[shape["arg"]]
        return full_outcome(lambda: ov(a), LOG)

    def run(ctx):
        base = scenario(ARRANGEMENTS[0])
        k = 1 + ctx.choose("arrangement", len(ARRANGEMENTS) - 1)
        var = scenario(ARRANGEMENTS[k])
        same = base == var
        info = dict(family="derived", signature_types=[ta, ta, tb], canonical=base, variant=var, arrangement=list(ARRANGEMENTS[k]))
        return Verdict(same, (), info, [base[1][0]], nontrivial=len(base[0]) >= 1)

    return run


def make_run_late(W, shape, known_active=None):
    """the outcome depends on the methods, their types and priorities -- not on what OTHER functions compared earlier in the process: a function
    f1 with methods on two real ABCs is used, then the relation between the two classes is declared (ABC.register), then a NEW function f2
    with the same methods is built: f2 must behave like the same function in a process that never ran f1"""
    import abc

    from ovld import Ovld

    def run(ctx):
        A = abc.ABCMeta("LA", (), {})
        B = abc.ABCMeta("LB", (), {})

        def mk():
            LOG = []

            def ha(x: A):
                LOG.append((0,))
                return 0

            def hb(x: B):
                LOG.append((1,))
                return 1

            def ho(x: object):
                LOG.append((2,))
                return 2
            ov = Ovld()
            order = [(ha, 0), (hb, 0), (ho, -1)]
            if ctx.choose("reversed_registration", 2):
                order = [order[1], order[0], order[2]]
            for fn, p in order:
                ov.register(fn, priority=p)
            return ov, LOG
        used_before = ctx.choose("another_function_used_before", 2)
        direction = ctx.choose("registered", 3)        # 0: nothing, 1: A.register(B), 2: B.register(A)
        if used_before:
            # (called with an instance of a class below both: the two classes get compared with each other)
            Both = abc.ABCMeta("LBoth", (B, A), {})
            f1, L1 = mk()
            for v in (A(), B(), Both()):
                full_outcome(lambda: f1(v), L1)
        if direction == 1:
            A.register(B)
        elif direction == 2:
            B.register(A)
        f2, L2 = mk()
        got = [full_outcome(lambda: f2(v), L2) for v in (A(), B())]
        # expected from the relation as it is now: the more specific class wins, unrelated classes give their own method
        exp = []
        for cls in (A, B):
            app = [m for m, t in ((0, A), (1, B)) if issubclass(cls, t)]
            if len(app) == 1:
                exp.append(app[0])
            else:
                exp.append(0 if issubclass(A, B) and not issubclass(B, A) else 1 if issubclass(B, A) and not issubclass(A, B) else "AMB")
        ok = all((g[1][0] == "AMB" and e == "AMB") or (g[0] == [e]) for g, e in zip(got, exp))
        info = dict(family="relation declared between two functions", used_before=bool(used_before), registered=["nothing", "LA.register(LB)", "LB.register(LA)"][direction],
                    outcomes=got, expected=exp)
        return Verdict(ok, (), info, ["late"], nontrivial=True)

    return run


def make_run_tunion(W, shape, known_active=None):
    """type[...] as a member of a union, a class passed as the argument: adding a method that is NOT applicable to the call (on type[Z] for
    an unrelated class Z, on a parametrised type[list[Z]], of another arity) must not change the outcome"""
    import typing

    from ovld import Ovld

    ta, tb = shape["tunion"]

    def run(ctx):
        def mk(extra):
            LOG = []

            def hu(x: typing.Union[type[W.K[ta]], W.K[tb]]):
                LOG.append((0,))
                return 0

            def ho(x: object):
                LOG.append((1,))
                return 1

            def e1(x: type[Z]):
                LOG.append((2,))
                return 2

            def e2(x: type[list[Z]]):
                LOG.append((3,))
                return 3

            def e3(x: type[Z], y: object):
                LOG.append((4,))
                return 4
            def hn(x: None):
                LOG.append((5,))
                return 5
            ov = Ovld()
            ov.register(hu, priority=0)
            ov.register(ho, priority=-1)
            ov.register(hn, priority=0)
            for e in ([e1], [e2], [e3], [e1, e2])[extra - 1] if extra else []:
                ov.register(e, priority=0)
            return ov, LOG
        base_f, L0 = mk(0)
        k = 1 + ctx.choose("extra", 4)
        var_f, L1 = mk(k)
        ok, trace = True, []
        # (besides the harness classes and instances: every kind of argument the dispatcher treats specially once some method is on type[...])
        for name, a in (("K0", W.K[0]), ("K1", W.K[1]), ("K2", W.K[2]), ("K1()", W.inst[1]), ("K0()", W.inst[0]), ("None", None), ("int", int),
                        ("typing.Any", typing.Any), ("list[int]", list[int]), ("3", 3), ("type", type), ("typing.List", typing.List)):
            b = full_outcome(lambda: base_f.dispatch(a), L0)
            v = full_outcome(lambda: var_f.dispatch(a), L1)
            trace.append(dict(arg=name, without_extra=b, with_extra=v))
            if b != v:
                ok = False
            # closed form for the arguments whose meaning does not depend on the harness classes (a difference between two functions that
            # both carry a type[...] method would not show a defect common to both)
            fixed = {"None": 5, "3": 1, "int": 1, "list[int]": 1, "type": 1}.get(name)
            if fixed is not None and (b != ([fixed], ["ret", repr(fixed)]) or v != b):
                ok = False
        return Verdict(ok, (), dict(family="type[...] in a union + a non-applicable type[...] method", union=f"type[K{ta}] | K{tb}", extra=k, trace=trace),
                       ["tunion"], nontrivial=True)

    return run


_TWO = {}


def make_run_two(W, shape, known_active=None):
    """two dispatched positions, three methods: candidates can tie on the SUM of their per-position specificities while being pointwise
    incomparable, so the grouping into resolution ranks must not depend on the order in which tied candidates are met.  Non-applicable extras:
    a method of another arity whose first position carries a harness class, and one on an unrelated class."""
    from ovld import Ovld

    n = shape["n"]
    methods = shape["two"]      # list of (x type, y type); index n = object
    M = len(methods)
    key = repr(methods)
    ms = _TWO.get(key)
    if ms is None:
        def term(t):
            return ("obj",) if t == n else ("K", t)
        # (a third entry marks y as optional: the same types with another optionality are another signature, not a re-registration)
        specs = [dict(pos=[("x", term(a), False), ("y", term(b), bool(o))]) for a, b, *o in methods]
        specs.append(dict(pos=[("x", ("obj",), False), ("y", ("obj",), False), ("z", ("obj",), False)]))   # extra: other arity
        specs.append(dict(pos=[("x", ("raw", "Z"), False), ("y", ("raw", "Z"), False)]))                     # extra: unrelated class
        ms = _TWO[key] = MethodSet(specs)
    perms = list(itertools.permutations(range(M)))
    order.install()
    from symx import kit

    kit.RAW["Z"] = Z

    def scenario(ctx, regorder, extras, extype):
        hs, LOG, ns = ms.instantiate(W)
        if extype is not None:
            hs[M].__annotations__ = dict(hs[M].__annotations__, x=extype, y=extype)
        ov = Ovld()
        seq = list(regorder)
        if extras:
            seq.insert(min(1, len(seq)), M)
            seq.append(M + 1)
        for m in seq:
            ov.register(hs[m], priority=0)
        a, b = W.inst[shape["args"][0]], W.inst[shape["args"][1]]
        return full_outcome(lambda: ov.dispatch(a, b), LOG)

    def run(ctx):
        order.MODE[0] = "canon"
        try:
            base = scenario(ctx, list(range(M)), False, None)
            dim = ctx.choose("dim", 3)
            p = ctx.choose("regperm", len(perms)) if dim == 0 else 0
            extras = dim == 1
            extype = W.K[ctx.choose("extype", n)] if extras else None
            order.MODE[0] = "sym" if dim == 2 else "canon"
            var = scenario(ctx, list(perms[p]), extras, extype)
        finally:
            order.MODE[0] = "canon"
        same = base == var
        info = dict(family="two positions", methods=methods, call=shape["args"], canonical=base, variant=var, regorder=list(perms[p]), extras=extras,
                    extra_types=(extype.__name__ if extype is not None else None))
        known = []
        if not same and extras and KNOWN_LEVELS in (known_active if known_active is not None else runner.active_known_ids(PID)):
            idx = [(m_[0], m_[1]) for m_ in methods]
            rule = GRule(idx, tuple(shape["args"]), [z3.IntVal(0)] * M, lambda t, c: W.rel(c, t), lambda t, u: W.rel(t, u))
            ok = True
            for out, with_extra in ((base, False), (var, True)):
                regs0 = [sorted({a for a, _ in methods} | ({extype._idx} if with_extra else set())),
                         sorted({b for _, b in methods} | ({extype._idx} if with_extra else set()))]
                ch, term = out
                if term[0] == "ret" and len(ch) == 1:
                    ok = ok and (ctx.decide(rule.wins(ch[0])) or (ctx.decide(z3.Not(rule.any_win())) and levels_mechanism(ctx, rule, regs0, ch[0])))
                elif term[0] == "AMB":
                    ok = ok and ctx.decide(z3.And(rule.any_app(), z3.Not(rule.any_win())))
                elif term[0] == "NOM":
                    ok = ok and ctx.decide(z3.Not(rule.any_app()))
                else:
                    ok = False
            known.append((KNOWN_LEVELS, ok))
        return Verdict(same, known, info, [base[1][0], "extras" if extras else "noextras"], nontrivial=len(base[0]) >= 1)

    return run


def make_run(W, shape, known_active=None):
    from ovld import Ovld, typeorder

    if shape.get("kwmethods"):
        return make_run_kw(W, shape, known_active)
    if shape.get("two"):
        return make_run_two(W, shape, known_active)
    if shape.get("derived"):
        return make_run_derived(W, shape, known_active)
    if shape.get("late"):
        return make_run_late(W, shape, known_active)
    if shape.get("tunion"):
        return make_run_tunion(W, shape, known_active)

    if known_active is None:
        known_active = runner.active_known_ids(PID)
    n = shape["n"]
    methods = [tt(t) for t in shape["methods"]]
    M = len(methods)
    plain = all(t[0] in ("K", "obj") for t in methods)
    argc = shape["arg"]
    key = repr(methods)
    ms = _MS.get(key)
    if ms is None:
        specs = [dict(pos=[("x", t, False)]) for t in methods]
        specs.append(dict(pos=[("x", ("obj",), False), ("y", ("obj",), False)]))   # extra: other arity
        specs.append(dict(pos=[("x", ("raw", "Z"), False)]))                        # extra: unrelated class
        ms = _MS[key] = MethodSet(specs)
    perms = list(itertools.permutations(range(M)))
    PZ = [z3.IntVal(0)] * M if shape.get("equal_prio") else W.P[:M]
    order.install()
    from symx import kit

    kit.RAW["Z"] = Z
    if plain:
        idx = [t[1] if t[0] == "K" else n for t in methods]
        app = lambda t, c: W.rel(c, t)  # noqa: E731
        le = lambda t, u: W.rel(t, u)  # noqa: E731

    def scenario(ctx, regorder, extras, extra_type=None):
        hs, LOG, ns = ms.instantiate(W)
        if extra_type is not None:
            hs[M].__annotations__ = {"x": extra_type, "y": object}
        ov = Ovld()
        seq = [("m", m) for m in regorder]
        if extras:
            seq.insert(min(1, len(seq)), ("e", M))
            seq.append(("e", M + 1))
        for kind, m in seq:
            ov.register(hs[m], priority=(0 if shape.get("equal_prio") else W.prio[m]))
        a = W.inst[argc] if argc != n else object()
        return full_outcome(lambda: ov.dispatch(a), LOG)

    def run(ctx):
        order.MODE[0] = "canon"
        order.SITE[0] = 0
        try:
            base = scenario(ctx, list(range(M)), False)
            # quick tier: vary one dimension at a time (sum, not product, of the three spaces)
            dim = ctx.choose("dim", 3) if shape.get("split") else None
            p = ctx.choose("regperm", len(perms)) if dim in (None, 0) else 0
            extras = bool(ctx.choose("extras", 2)) if dim in (None, 1) else False
            extype = None
            if extras and plain:
                # the other-arity extra carries a harness class on its first position: registered at that
                # position although the method is never applicable to a one-argument call
                extype = W.K[ctx.choose("extype", n)]
            order.MODE[0] = "sym" if dim in (None, 2) else "canon"
            var = scenario(ctx, list(perms[p]), extras, extype)
        finally:
            order.MODE[0] = "canon"
        same = base == var
        info = dict(methods=[term_str(t) for t in methods], arg=f"K{argc}" if argc != n else "object", canonical=base,
                    variant=var, regorder=list(perms[p]), extras=extras,
                    extra_first_position=(extype.__name__ if extype is not None else None))
        known = []
        if not same:
            if plain and KNOWN_LEVELS in known_active:
                # both outcomes must individually be what the documented rule, or the recorded integer-level
                # mechanism with the registered types of THAT run, yields
                ok = True
                for out, with_extra in ((base, False), (var, extras and extype is not None)):
                    rule = GRule([(i,) for i in idx], (argc,), PZ, app, le)
                    regs0 = sorted(set(idx) | ({extype._idx} if with_extra else set()))
                    ch, term = out
                    if term[0] == "ret" and len(ch) == 1:
                        a = ch[0]
                        exp = rule.wins(a)
                        lev = levels_mechanism(ctx, rule, [regs0], a)
                        ok = ok and (ctx.decide(exp) or (ctx.decide(z3.Not(rule.any_win())) and lev))
                    elif term[0] == "AMB":
                        ok = ok and ctx.decide(z3.And(rule.any_app(), z3.Not(rule.any_win())))
                    elif term[0] == "NOM":
                        ok = ok and ctx.decide(z3.Not(rule.any_app()))
                    else:
                        ok = False
                known.append((KNOWN_LEVELS, ok))
            if not plain and KNOWN_HOOKS in known_active:
                # recorded mechanism (C12 hook disagreement): two registered types, both applicable to the
                # argument, whose typeorder is not mirror-symmetric under this model -> the layering computed by
                # sort_types depends on which of the two is met first
                order.MODE[0] = "canon"
                built = [build(t, W) for t in methods]
                cls = W.cls(argc)
                from ovld import subclasscheck

                asym = False
                for i in range(M):
                    for j in range(i + 1, M):
                        if subclasscheck(cls, built[i]) and subclasscheck(cls, built[j]):
                            d1, d2 = typeorder(built[i], built[j]), typeorder(built[j], built[i])
                            if d2 is not d1.opposite():
                                asym = True
                known.append((KNOWN_HOOKS, asym))
        return Verdict(same, known, info, [base[1][0] if base[1][0] != "EXC" else "EXC:" + base[1][1][:60], "extras" if extras else "noextras"], nontrivial=len(base[0]) >= 1)

    return run


def gen_shapes(tier, seed):
    rng = random.Random(seed)
    n = 3
    K = [("K", i) for i in range(n)]
    atoms = K + [("obj",)]
    shapes = []
    plain = []
    for M in (2, 3):
        for mt in itertools.combinations(atoms, M):
            for arg in (0,):
                plain.append(dict(n=n, methods=list(mt), arg=arg))
    K4 = [("K", i) for i in range(4)] + [("obj",)]
    for M in (2, 3):
        for mt in itertools.combinations(K4, M):
            plain.append(dict(n=4, methods=list(mt), arg=0))
    terms = atoms + [("U", K[0], K[1]), ("U", K[1], K[2]), ("U", K[0], K[2]), ("I", K[0], K[1]), ("I", K[1], K[2]),
                     ("Ex", K[0]), ("SS", K[1]), ("Dep", K[0], 0), ("Dep", K[0], 1), ("Dep", K[1], 0), ("Dep", ("obj",), 0),
                     ("U", K[0], K[1], K[2]), ("CCF", K[0]), ("CCF", K[1]), ("CCF", K[2])]
    rich = []
    for M in (2, 3):
        for mt in itertools.combinations(terms, M):
            if all(t[0] in ("K", "obj") for t in mt):
                continue
            rich.append(dict(n=n, methods=list(mt), arg=0))
    kwfam = []
    for M in (1, 2):
        for ms_ in itertools.product(itertools.product(range(n + 1), repeat=2), repeat=M):
            if len(set(ms_)) == M:
                kwfam.append(dict(n=n, kwmethods=[list(t) for t in ms_]))
    twofam = []
    pairs = list(itertools.product(range(n + 1), repeat=2))
    for ms_ in itertools.combinations(pairs, 3):
        twofam.append(dict(n=n, two=[list(t) for t in ms_], args=[0, 1]))
    rng.shuffle(twofam)
    twins = [dict(n=n, two=[list(p1), list(p1) + [1], list(p2)], args=[0, 1]) for p1 in pairs for p2 in pairs if p1 != p2]
    rng.shuffle(twins)
    derfam = [dict(n=n, derived=[ta, tb], arg=0) for ta in range(n + 1) for tb in range(n + 1) if ta != tb]
    total = len(plain) + len(rich) + len(kwfam) + len(twofam) + len(derfam)
    rng.shuffle(kwfam)
    rng.shuffle(rich)
    if tier == "quick":
        shapes = plain + rich[:150] + [r_ for r_ in rich if sum(1 for t_ in r_['methods'] if t_[0] == 'CCF') >= 2][:40] + kwfam[:40] + twofam[:60] + twins[:16] + derfam + [dict(n=n, late=True, derived=None, arg=0)] + [dict(n=n, tunion=[a_, b_], derived=None, arg=0) for a_ in range(3) for b_ in range(3) if a_ != b_]
    else:
        shapes = plain + rich[:260] + kwfam + twofam[:400] + twins[:120] + derfam + [dict(n=n, late=True, derived=None, arg=0)] + [dict(n=n, tunion=[a_, b_], derived=None, arg=0) for a_ in range(3) for b_ in range(3) if a_ != b_]
        for _ in range(40):
            shapes.append(dict(n=4, methods=rng.sample([("K", i) for i in range(4)] + [("obj",)], 4), arg=0))
    for sh in shapes:
        sh["split"] = tier == "quick"
        sh["equal_prio"] = tier == "quick"
    return shapes, total, True


def explore_shape(shape, tier="quick", seed=0, budget_s=120, validate=0):
    order.MAXSIZE[0] = 4 if tier == "quick" else 6
    return runner.explore_symbolic(make_world, make_run, shape, seed=seed,
                                   deadline=time.time() + budget_s, validate=validate)


def replay(rec):
    return runner.replay_record(sys.modules[__name__], rec)


def _native_extras():
    """f(x:A), f(x:B), plus the never-applicable f(x:A2, y:int): f(C()) must not depend on the third method"""
    from ovld import Ovld

    class A: pass
    class B: pass
    class A2(A): pass
    class C(A2, B): pass
    def fa(x: A): return "A"
    def fb(x: B): return "B"
    def fc(x: A2, y: int): return "A2"
    outs = []
    for fns in ((fa, fb), (fa, fb, fc)):
        ov = Ovld()
        for fn in fns:
            ov.register(fn)
        try:
            outs.append(ov.dispatch(C()))
        except TypeError as e:
            outs.append(str(e)[:9])
    return outs[0] != outs[1]


def _native_union_order():
    """f(x: X|Y), f(x: Y|Z); W(X, Y, Z): the outcome of f(W()) depends on the iteration order of the type set"""
    import subprocess

    prog = ("from ovld import ovld\nfrom ovld.types import Union\n"
            "class X: pass\nclass Y: pass\nclass Z: pass\nclass W(X, Y, Z): pass\n"
            "@ovld\ndef f(x: Union[X, Y]): return 'XY'\n@ovld\ndef f(x: Union[Y, Z]): return 'YZ'\n"
            "try: print(f(W()))\nexcept TypeError: print('AMB')\n")
    outs = set()
    import os
    for seed in range(12):
        env = dict(os.environ, PYTHONHASHSEED=str(seed))
        r = subprocess.run([sys.executable, "-c", prog], capture_output=True, text=True, env=env)
        outs.add(r.stdout.strip())
    return len(outs) > 1


def _native_tied_heads():
    """witness: X(a: Dep[A2, no], b: B0), W(a: Dep[A1, no], b: B0), Y(a: A0, b: Dep[B2, yes]), V(a: A0, b: Dep[B1, yes]); f(A2(), B2()):
    X and Y tie for the head of the candidate list, and which of them is met first (the iteration order of a set of functions, i.e. memory
    addresses) decides whether V joins the first rank (ambiguous with Y) or stays below Y (Y runs)"""
    from ovld import Dependent, Ovld

    class A0: pass          # noqa: E701
    class A1(A0): pass      # noqa: E701
    class A2(A1): pass      # noqa: E701
    class B0: pass          # noqa: E701
    class B1(B0): pass      # noqa: E701
    class B2(B1): pass      # noqa: E701

    def no(x):
        return False

    def yes(x):
        return True

    def build(pad):
        junk = [lambda: 0 for _ in range(pad)]          # noqa: F841  only shifts memory addresses

        def X(a: Dependent[A2, no], b: B0):
            return "X"

        def W(a: Dependent[A1, no], b: B0):
            return "W"

        def Y(a: A0, b: Dependent[B2, yes]):
            return "Y"

        def V(a: A0, b: Dependent[B1, yes]):
            return "V"
        o = Ovld()
        for fn in (X, W, Y, V):
            o.register(fn)
        try:
            return o(A2(), B2())
        except TypeError:
            return "ambiguous"
    return len({build(p) for p in range(120)}) > 1


NATIVE_WITNESSES = {"c06_extras": _native_extras, "c06_union_order": _native_union_order, "c06_tied_heads": _native_tied_heads}


def main(tier, seed):
    t0 = time.time()
    runner.assert_real_code()
    shapes, total, sampled = gen_shapes(tier, seed)
    kw = dict(tier=tier, seed=seed, budget_s=60 if tier == "quick" else 45, validate=0)
    results = runner.pmap("props.c06", "explore_shape", shapes, kw, chunksize=1)
    return runner.finish(
        PID, tier, seed, t0, results,
        bounds=dict(classes=3, methods="2-3 distinct signatures (+2 non-applicable extras)", positions="1; a two-position family (3 methods over (Ki|object)^2, "
                    "call (K0(), K1()): candidates tied on the sum of their specificities), a keyword-only family, and a derived family (two methods with one "
                    "signature and a third, registered in 10 arrangements over a function and a copy() of it)",
                    set_order="every internal set of <= %d elements (typemap, mro, recode, core) iterates in the order of one symbolic "
                              "ranking of its elements (a stand-in for hash positions), shared by all sets; every ranking explored" % (4 if tier == "quick" else 6),
                    registration_order="every permutation of the distinct signatures",
                    extras="one method of another arity (first position typed with any harness class) and one on an unrelated concrete class; "
                           "keyword-only family: methods requiring a keyword that the call does not supply",
                    priorities="all equal (quick) / unbounded integers, symbolic (thorough)", hierarchy="every partial order (symbolic)"),
        rule="one state = one method set x class of (hierarchy, priorities, registration order, set orders, extras); "
             "non-trivial = the canonical run entered a method",
        stubs=["SymMeta classes", "SymInt priorities", "PermSet injected as module-level `set` of ovld.typemap/mro/recode/core"],
        dont_care=["permutations that reorder identical signatures (recency is part of the rule)"],
        extra=dict(dimensions="quick tier varies registration order, extras and set order one at a time against the canonical run; "
                              "thorough tier varies them jointly"),
        assumptions=["hash seeds and addresses influence ovld only through set iteration order (dicts iterate in insertion order)",
                     "native validation replays are not run for this property: the set-order stub has no native counterpart; "
                     "counterexamples are replayed with the stub's order forced"],
        shapes_total=total, shapes_sampled=sampled, mod=sys.modules[__name__],
    )
