"""C13 -- type-level matching agrees with the documented meaning of each type.

Symbolic: subclass relation R, has-method booleans.  Enumerated: (type term, value class) and pairs of
class/generic terms.  Oracle: closed-form `member` / `sub` formulas written from the documentation.
"""

import importlib.abc
import importlib.machinery
import itertools
import sys
import time

import z3

from lib import runner
from symx.engine import Verdict
from symx.kit import MethodSet, build, member, outcome_of, term_str
from symx.world import World

PID = "C13"
DEFMOD = "symxdeferred"


class _Finder(importlib.abc.MetaPathFinder, importlib.abc.Loader):
    world = None

    def find_spec(self, name, path=None, target=None):
        if name == DEFMOD:
            return importlib.machinery.ModuleSpec(name, self, is_package=True)
        if name == DEFMOD + ".inner":
            # a submodule that importing the package does not load: Deferred["pkg.inner.K"] has to import it when a class of the package shows up
            return importlib.machinery.ModuleSpec(name, self)
        return None

    def create_module(self, spec):
        return None

    def exec_module(self, module):
        for i, K in enumerate(self.world.K):
            setattr(module, f"K{i}", K)


FINDER = _Finder()
if not any(isinstance(f, _Finder) for f in sys.meta_path):
    sys.meta_path.append(FINDER)


def make_world(ex, shape, real):
    return World(ex, shape["n"], nprio=0, real=real, hm_names=("hm",),
                 extra_ns=lambda i: {"__module__": DEFMOD + ".sub"})


def totuple(x):
    return tuple(totuple(y) for y in x) if isinstance(x, list) else x


def build13(term, W):
    """like kit.build plus ("Def", j): Deferred class K_j of the not-yet-imported synthetic module"""
    from ovld import Deferred
    import ovld.types as OT

    k = term[0]
    if k == "Def":
        sys.modules.pop(DEFMOD, None)
        sys.modules.pop(DEFMOD + ".inner", None)
        return Deferred[f"{DEFMOD}.K{term[1]}"]
    if k == "DefAbsent":
        return Deferred["symxabsent.K"]        # a package that is not installed: classes of other packages are simply not its instances
    if k == "DefSub":
        sys.modules.pop(DEFMOD, None)
        sys.modules.pop(DEFMOD + ".inner", None)
        return Deferred[f"{DEFMOD}.inner.K{term[1]}"]
    if k in ("U", "I"):
        ctor = OT.Union if k == "U" else OT.Intersection
        return ctor[tuple(build13(t, W) for t in term[1:])]
    return build(term, W)


def member13(term, i, W):
    k = term[0]
    if k == "DefAbsent":
        return z3.BoolVal(False)
    if k in ("Def", "DefSub"):
        return W.rel(i, term[1])
    if k == "U":
        return z3.Or([member13(t, i, W) for t in term[1:]])
    if k == "I":
        return z3.And([member13(t, i, W) for t in term[1:]])
    return member(term, i, W, hm=lambda c, name: W.has(c, name))


def member_fresh(term, has=()):
    """documented meaning for an instance of a fresh class that derives from object only and defines just the methods named in `has`"""
    k = term[0]
    if k == "obj":
        return True
    if k == "HM":
        return term[1] in has
    if k == "U":
        return any(member_fresh(t, has) for t in term[1:])
    if k == "I":
        return all(member_fresh(t, has) for t in term[1:])
    if k == "SS":
        return term[1][0] == "obj"
    return False          # a harness class, Exactly[...], HasMethod, Deferred harness classes


def member_twin(term, W):
    """documented meaning for an instance of a PROPER subclass of K1 (same name as K1): like K1 for everything that goes by subclassing,
    never exactly a harness class, strictly below K1 and whatever K1 is below"""
    k = term[0]
    if k == "Ex":
        return z3.BoolVal(False)
    if k == "SS":
        return z3.BoolVal(True) if term[1][0] == "obj" else W.rel(1, term[1][1])
    if k == "U":
        return z3.Or([member_twin(t, W) for t in term[1:]])
    if k == "I":
        return z3.And([member_twin(t, W) for t in term[1:]])
    return member13(term, 1, W)


def tstr(term):
    if term[0] == "Def":
        return f"Deferred['{DEFMOD}.K{term[1]}']"
    if term[0] == "DefAbsent":
        return "Deferred['symxabsent.K']"
    if term[0] == "DefSub":
        return f"Deferred['{DEFMOD}.inner.K{term[1]}']"
    if term[0] in ("U", "I"):
        return ("Union[" if term[0] == "U" else "Intersection[") + ", ".join(tstr(t) for t in term[1:]) + "]"
    return term_str(term)


def sub(s, t, W):
    """closed form: s is a subtype of t, for class atoms and parametrised generics"""
    n = W.n
    if s[0] in ("K", "obj") and t[0] in ("K", "obj"):
        return W.rel(s[1] if s[0] == "K" else n, t[1] if t[0] == "K" else n)
    if s[0] in ("list", "dict") and t[0] == s[0]:
        return z3.And([sub(x, y, W) for x, y in zip(s[1:], t[1:])])
    if s[0] in ("list", "dict") and t[0] == "obj":
        return z3.BoolVal(True)
    return z3.BoolVal(False)


_MS = MethodSet([dict(pos=[("x", ("raw", "int"), False)]), dict(pos=[("x", ("obj",), False)])])
_MS2 = MethodSet([dict(pos=[("x", ("raw", "int"), False)]), dict(pos=[("x", ("raw", "int"), False)]), dict(pos=[("x", ("obj",), False)])])


def make_run(W, shape, known_active=None):
    from ovld import Ovld, subclasscheck

    kind = shape["kind"]
    n = W.n
    if kind == "member":
        T = totuple(shape["t"])
        c = shape["c"]

        liar = c == "liar"
        twin = c == "twin"
        callable_ = c == "callable"
        if c == "derived":
            return make_run_derived(W, T)
        if callable_:
            c = n            # a fresh class below object that defines __call__ (and nothing else of interest)
        if liar:
            c = n            # type(v) is a plain class below object only; v.__class__ claims to be K1 (proxies, mocks): dispatch is on type(v)
        if twin:
            c = 1            # a proper subclass of K1 that carries K1's own name, qualified name and module (type(C.__name__, (C,), {}))

        def run(ctx):
            FINDER.world = W
            try:
                TT = build13(T, W)
                if liar:
                    # (its module's name merely starts like the absent package's)
                    Liar = type("Liar", (), {"__class__": property(lambda self: W.K[1]), "__module__": "symxabsent_tools.x"})
                    cls, inst = Liar, Liar()
                elif callable_:
                    Cal = type("Cal", (), {"__call__": lambda self: None})
                    cls, inst = Cal, Cal()
                elif twin:
                    K1 = W.K[1]
                    ns_t = {"__module__": K1.__module__, "__qualname__": K1.__qualname__}
                    ns_t.update({a_: K1.__dict__[a_] for a_ in ("_world", "_idx") if a_ in K1.__dict__})     # (the stub reads these from the class's own namespace)
                    Twin = type(K1)(K1.__name__, (K1,), ns_t)
                    cls, inst = Twin, Twin()
                else:
                    cls = W.cls(c)
                    inst = W.inst[c] if c != n else object()
                got = bool(subclasscheck(cls, TT))
                refl = bool(subclasscheck(TT, TT))
                inst_ok = bool(isinstance(inst, TT)) if not liar else None
                # end to end: method on T (priority 0) over a fallback on object (priority -1)
                hs, LOG, ns = _MS.instantiate(W)
                hs[0].__annotations__ = {"x": build13(T, W)}
                ov = Ovld()
                ov.register(hs[0], priority=0)
                ov.register(hs[1], priority=-1)
                out, res = outcome_of(lambda: ov.dispatch(inst), LOG)
            except Exception as e:  # noqa: BLE001  the subtype test / isinstance itself failed: neither "matches" nor "does not match"
                info = dict(type=tstr(T), value_class=f"K{c}" if c != n else "object", raised=f"{type(e).__name__}: {e}"[:160])
                return Verdict(False, (), info, ["raised"], nontrivial=True)
            finally:
                sys.modules.pop(DEFMOD, None)
                sys.modules.pop(DEFMOD + ".inner", None)
            m = z3.BoolVal(member_fresh(T, has=("__call__",) if callable_ else ())) if (liar or callable_) else member_twin(T, W) if twin else member13(T, c, W)
            ran_t = out == ("ran", 0)
            sane = out in (("ran", 0), ("ran", 1))
            post = z3.And(z3.BoolVal(refl and sane), m == z3.BoolVal(got), (m == z3.BoolVal(inst_ok)) if inst_ok is not None else z3.BoolVal(True),
                          m == z3.BoolVal(ran_t))
            info = dict(type=tstr(T), value_class=("a class that defines __call__" if callable_ else "a proper subclass of K1 with K1's own name" if twin else "a class whose instances report __class__ = K1" if liar else f"K{c}" if c != n else "object"), subclasscheck=got, isinstance=inst_ok,
                        dispatch=list(out), reflexive=refl)
            return Verdict(post, (), info, ["member" if got else "non-member"], nontrivial=got)

        return run
    elif kind == "two":
        # two types of one constructor in one function (two Deferred references, two Exactly, ...): they are different types, each method is
        # reachable exactly for the classes its own type accepts
        T1, T2 = totuple(shape["t1"]), totuple(shape["t2"])
        c = shape["c"]
        ms2 = _MS2

        def run(ctx):
            FINDER.world = W
            try:
                hs, LOG, ns = ms2.instantiate(W)
                hs[0].__annotations__ = {"x": build13(T1, W)}
                hs[1].__annotations__ = {"x": build13(T2, W)}
                ov = Ovld()
                ov.register(hs[0], priority=0)
                ov.register(hs[1], priority=0)
                ov.register(hs[2], priority=-1)
                inst = W.inst[c] if c != n else object()
                out, res = outcome_of(lambda: ov.dispatch(inst), LOG)
            except Exception as e:  # noqa: BLE001
                return Verdict(False, (), dict(types=[tstr(T1), tstr(T2)], raised=f"{type(e).__name__}: {e}"[:160]), ["raised"], nontrivial=True)
            finally:
                sys.modules.pop(DEFMOD, None)
                sys.modules.pop(DEFMOD + ".inner", None)
            m1, m2 = member13(T1, c, W), member13(T2, c, W)
            post = z3.And(z3.Implies(z3.And(m1, z3.Not(m2)), z3.BoolVal(out == ("ran", 0))),
                          z3.Implies(z3.And(m2, z3.Not(m1)), z3.BoolVal(out == ("ran", 1))),
                          z3.Implies(z3.Not(z3.Or(m1, m2)), z3.BoolVal(out == ("ran", 2))))
            info = dict(types=[tstr(T1), tstr(T2)], value_class=f"K{c}" if c != n else "object", dispatch=list(out))
            return Verdict(post, (), info, [str(out[0])], nontrivial=out in (("ran", 0), ("ran", 1)))

        return run
    else:
        S, T = totuple(shape["s"]), totuple(shape["t"])

        def run(ctx):
            SS, TT = build(S, W), build(T, W)
            got = bool(subclasscheck(SS, TT))
            refl = bool(subclasscheck(SS, SS)) and bool(subclasscheck(TT, TT))
            post = z3.And(z3.BoolVal(refl), sub(S, T, W) == z3.BoolVal(got))
            info = dict(s=term_str(S), t=term_str(T), subclasscheck=got, reflexive=refl)
            return Verdict(post, (), info, ["sub" if got else "not-sub"], nontrivial=got)

        return run


def make_run_derived(W, T):
    """a class really derived from K1 (single base) that the harness classes see as class 2 (a virtual / structural subclass of whatever class 2
    is below, beyond what it inherits): the base is dispatched first, then the derived class -- which matches T exactly when class 2 does"""
    from ovld import Ovld, subclasscheck

    def run(ctx):
        K1, K2 = W.K[1], W.K[2]
        ns_t = {"__module__": K1.__module__, "_world": K2.__dict__.get("_world", getattr(K2, "_world", None)), "_idx": 2}
        Sub = type(K1)("Sub", (K1,), ns_t)
        Leaf = type(K1)("Leaf", (Sub,), dict(ns_t))
        hs, LOG, ns = _MS.instantiate(W)
        hs[0].__annotations__ = {"x": build13(T, W)}
        ov = Ovld()
        ov.register(hs[0], priority=0)
        ov.register(hs[1], priority=-1)
        try:
            outs = [outcome_of(lambda v=v: ov.dispatch(v), LOG)[0] for v in (W.inst[1], Sub(), Leaf(), W.inst[1])]
            got = bool(subclasscheck(Sub, build13(T, W)))
        except Exception as e:  # noqa: BLE001
            return Verdict(False, (), dict(type=tstr(T), raised=f"{type(e).__name__}: {e}"[:160]), ["raised"], nontrivial=True)
        m1, m2 = member13(T, 1, W), member13(T, 2, W)
        ok = z3.And(m1 == z3.BoolVal(outs[0] == ("ran", 0)), m2 == z3.BoolVal(outs[1] == ("ran", 0)), m2 == z3.BoolVal(outs[2] == ("ran", 0)),
                    m1 == z3.BoolVal(outs[3] == ("ran", 0)), m2 == z3.BoolVal(got),
                    z3.BoolVal(all(o in (("ran", 0), ("ran", 1)) for o in outs)))
        post = z3.Implies(W.rel(2, 1), ok)
        info = dict(type=tstr(T), value_classes=["K1", "a class derived from K1 that the types see as class 2", "a class derived from that one", "K1"],
                    dispatch=[list(o) for o in outs], subclasscheck=got)
        return Verdict(post, (), info, ["derived"], nontrivial=outs[1] == ("ran", 0))

    return run


def universe(n, depth):
    K = [("K", i) for i in range(n)]
    pairs = list(itertools.combinations(K, 2))
    t = K + [("obj",)]
    t += [("U", x, y) for x, y in pairs] + [("I", x, y) for x, y in pairs]
    t += [("Ex", k) for k in K[:2]] + [("Ex", ("obj",))] + [("SS", k) for k in K[:2]] + [("SS", ("obj",))]
    t += [("HM", "hm"), ("Def", 0), ("Def", 1), ("DefSub", 0), ("DefSub", 1), ("DefAbsent",)]
    if depth >= 2:
        a, b, c = K[0], K[1], K[2 % n]
        t += [("U", ("I", a, b), c), ("I", ("U", a, b), c), ("U", ("Ex", a), b), ("U", ("Ex", a), ("SS", a)),
              ("I", ("SS", a), b), ("I", ("HM", "hm"), a), ("U", ("HM", "hm"), a), ("I", ("U", a, b), ("U", b, c)),
              ("U", ("I", a, b), ("I", b, c)), ("U", ("Def", 0), b), ("I", ("Def", 0), ("HM", "hm")),
              ("U", a, b, c), ("I", a, b, c), ("I", ("Ex", a), ("HM", "hm")), ("U", ("SS", a), ("SS", b))]
    return t


def generics(n):
    K = [("K", i) for i in range(n)] + [("obj",)]
    g = list(K)
    g += [("list", k) for k in K]
    g += [("dict", x, y) for x in K[:2] for y in K[:2]]
    g += [("list", ("list", k)) for k in K[:2]] + [("dict", K[0], ("list", K[1])), ("dict", K[1], ("list", K[0]))]
    return g


def gen_shapes(tier, seed):
    n, depth = (3, 2) if tier == "quick" else (4, 2)
    shapes = [dict(kind="member", n=n, t=t, c=c) for t in universe(n, depth) for c in list(range(n + 1)) + ["liar", "twin"]]
    g = generics(n)
    K_ = [("K", i) for i in range(n)]
    shapes += [dict(kind="member", n=n, t=t, c="callable") for t in (("HM", "__call__"), ("I", ("HM", "__call__"), ("obj",)), ("U", ("HM", "__call__"), K_[0]),
                                                                       ("I", ("HM", "__call__"), ("SS", ("obj",))), ("HM", "hm"))]
    def plain(t):
        return t[0] in ("K", "obj") or (t[0] in ("U", "I") and all(plain(x) for x in t[1:]))
    shapes += [dict(kind="member", n=n, t=t, c="derived") for t in universe(n, depth) if plain(t)]
    shapes += [dict(kind="pair", n=n, s=s, t=t) for s in g for t in g]
    K = [("K", i) for i in range(n)]
    twos = [(("Def", 0), ("Def", 1)), (("Def", 1), ("DefSub", 0)), (("Ex", K[0]), ("Ex", K[1])), (("SS", K[0]), ("SS", K[1])),
            (("Def", 0), ("Ex", K[1])), (("HM", "hm"), ("Def", 1))]
    shapes += [dict(kind="two", n=n, t1=a, t2=b, c=c) for a, b in twos for c in range(n + 1)]
    return shapes, len(shapes), False


def explore_shape(shape, tier="quick", seed=0, budget_s=60, validate=0):
    if shape.get("c") == "derived":
        validate = 0      # (plain real classes cannot be virtual subclasses of one another: this family exists on the symbolic classes only)
    return runner.explore_symbolic(make_world, make_run, shape, seed=seed,
                                   deadline=time.time() + budget_s, validate=validate)


def replay(rec):
    return runner.replay_record(sys.modules[__name__], rec)


def main(tier, seed):
    t0 = time.time()
    runner.assert_real_code()
    shapes, total, sampled = gen_shapes(tier, seed)
    kw = dict(tier=tier, seed=seed, budget_s=60, validate=1)
    results = runner.pmap("props.c13", "explore_shape", shapes, kw, chunksize=8)
    return runner.finish(
        PID, tier, seed, t0, results,
        bounds=dict(classes=shapes[0]["n"], term_depth=2, member_shapes=sum(1 for s in shapes if s["kind"] == "member"),
                    pair_shapes=sum(1 for s in shapes if s["kind"] == "pair"),
                    hierarchy="every partial order (symbolic); has-method symbolic, inherited; Deferred via a synthetic not-yet-imported module"),
        rule="one state = one (type term, value class | pair of terms) x class of hierarchies; non-trivial = the check answered True",
        stubs=["SymMeta classes", "meta-path finder serving the synthetic module of the Deferred terms"],
        dont_care=["transitivity: implied by equality with the closed form over the transitive relation R"],
        assumptions=["value-dependent types are C10/C11's subject", "type[...] is C14's subject"],
        shapes_total=total, shapes_sampled=sampled, mod=sys.modules[__name__],
    )
