"""symx: model-guided symbolic execution of real Python code on z3.

The code under test runs natively.  Every input-dependent step goes through
``Ctx.decide`` (a z3 Boolean evaluated under the current model, its literal appended
to the path condition) or ``Ctx.choose`` (finite-domain selector).  After each run the
path condition ``pc`` describes the whole class of inputs that would have answered the
same questions the same way; one solver query decides the property for *all* of them,
and ``not pc`` is added as a blocking clause so the next model lies in an unexplored
class.  Exhaustion of the input space is the solver's UNSAT verdict.
"""

import time

import z3


class Ctx:
    cur = None  # the Explorer currently driving a run (None outside a run)


def current():
    c = Ctx.cur
    if c is None:
        raise RuntimeError("symbolic value used outside an exploration")
    return c


class Inconclusive(Exception):
    pass


def lift(x):
    if isinstance(x, SymInt):
        return x.e
    if isinstance(x, bool):
        return None
    if isinstance(x, int):
        return z3.IntVal(x)
    return None


class SymInt:
    """Integer-valued z3 term.  Only comparisons are defined (ovld only compares
    priorities); anything else raises TypeError rather than silently concretising."""

    __slots__ = ("e",)

    def __init__(self, e):
        self.e = e

    def __hash__(self):
        return 0  # legal: equal values hash equally; avoids concretising in dataclass hash

    def _cmp(self, o, op):
        oe = lift(o)
        if oe is None:
            return NotImplemented
        return current().decide(op(self.e, oe))

    def __eq__(self, o):
        return self._cmp(o, lambda a, b: a == b)

    def __ne__(self, o):
        return self._cmp(o, lambda a, b: a != b)

    def __lt__(self, o):
        return self._cmp(o, lambda a, b: a < b)

    def __le__(self, o):
        return self._cmp(o, lambda a, b: a <= b)

    def __gt__(self, o):
        return self._cmp(o, lambda a, b: a > b)

    def __ge__(self, o):
        return self._cmp(o, lambda a, b: a >= b)

    def __repr__(self):
        return f"<{self.e}>"

    __str__ = __repr__

    def __format__(self, spec):
        return repr(self)


class Verdict:
    """What a scenario run returns.

    post   : True / False / z3 BoolRef -- the property on this path class
    known  : list of (finding_id, z3 BoolRef or bool) -- mechanism-level predicates of the
             recorded known findings; excluded *inside* the verdict query
    info   : JSON-able description of the run (for samples / replay files)
    tags   : iterable of str -- outcome kinds, counted for the vacuity report
    nontrivial : bool -- counts towards distinct_nontrivial
    """

    __slots__ = ("post", "known", "info", "tags", "nontrivial")

    def __init__(self, post, known=(), info=None, tags=(), nontrivial=True):
        self.post = post
        self.known = list(known)
        self.info = info
        self.tags = tuple(tags)
        self.nontrivial = nontrivial


def cross_check(samples, timeout_s=20):
    """re-discharge exported verdict queries with the cvc5 binary and the system z3 (4.8.12); returns
    dict(checked, agree, disagree=[...], errors=[...]).  Any disagreement or `(error` line is reported."""
    import os
    import subprocess
    import tempfile

    out = dict(checked=0, agree=0, disagree=[], errors=[], solvers=[])
    solvers = []
    if os.path.exists("/usr/bin/z3"):
        solvers.append(("z3-4.8.12", ["/usr/bin/z3", "-T:%d" % timeout_s]))
    for c in ("/usr/bin/cvc5", "/usr/local/bin/cvc5"):
        if os.path.exists(c):
            solvers.append(("cvc5-binary", [c, "--lang", "smt2", "--tlimit", str(timeout_s * 1000)]))
            break
    out["solvers"] = [n for n, _ in solvers]
    for text, expected in samples:
        # z3's to_smt2() already ends with (check-sat)
        with tempfile.NamedTemporaryFile("w", suffix=".smt2", delete=False) as fh:
            fh.write("(set-logic ALL)\n" + text if "set-logic" not in text else text)
            path = fh.name
        try:
            for name, cmd in solvers:
                try:
                    r = subprocess.run(cmd + [path], capture_output=True, text=True, timeout=timeout_s + 10)
                except subprocess.TimeoutExpired:
                    out["errors"].append(f"{name}: timeout")
                    continue
                ans = r.stdout.strip().splitlines()
                out["checked"] += 1
                if any("(error" in ln for ln in ans) or not ans:
                    out["errors"].append(f"{name}: {(r.stdout + r.stderr)[:160]}")
                elif ans[0].strip() == expected:
                    out["agree"] += 1
                elif ans[0].strip() in ("unknown", "timeout"):
                    out["errors"].append(f"{name}: {ans[0]}")
                else:
                    out["disagree"].append(dict(solver=name, answer=ans[0], z3py=expected))
        finally:
            os.unlink(path)
    return out


def _b(x):
    if x is True:
        return z3.BoolVal(True)
    if x is False:
        return z3.BoolVal(False)
    return x


class Explorer(Ctx):
    def __init__(self, assume=(), timeout_ms=30000, seed=0, forced=None):
        self.s = z3.Solver()
        self.s.set("timeout", timeout_ms)
        self.s.set("random_seed", seed)
        self.base = list(assume)
        if self.base:
            self.s.add(*self.base)
        self.forced = dict(forced or {})
        self.vars = {}  # name -> z3 const (registered symbolic inputs)
        self.doms = set()
        self.queries = 0
        self.solver_s = 0.0
        self.paths = 0
        self.literals = 0
        self.unknown = 0
        self.model = None
        self.pc = []
        self.memo = {}
        self.consults = 0
        self.exhaustive = False
        self.xsample = None       # list of (smt2 text, z3's answer) when cross-checking is on
        self.xsample_max = 0
        self.xsample_every = 1

    # -- variables ---------------------------------------------------------
    def declare(self, const):
        name = const.decl().name()
        if name not in self.vars:
            self.vars[name] = const
            if name in self.forced:
                v = self.forced[name]
                if z3.is_bool(const):
                    self.s.add(const == z3.BoolVal(bool(v)))
                else:
                    self.s.add(const == z3.IntVal(int(v)))
        return const

    def bool(self, name):
        return self.declare(z3.Bool(name))

    def int(self, name):
        return self.declare(z3.Int(name))

    # -- primitives used by stubs -----------------------------------------
    def _check(self, *extra):
        t = time.perf_counter()
        if extra:
            self.s.push()
            self.s.add(*extra)
            r = self.s.check()
            m = self.s.model() if r == z3.sat else None
            if self.xsample is not None and len(self.xsample) < self.xsample_max and r != z3.unknown \
                    and (self.queries % self.xsample_every) == 0:
                self.xsample.append((self.s.to_smt2(), str(r)))   # verdict query kept for the second-solver cross-check
            self.s.pop()
        else:
            r = self.s.check()
            m = self.s.model() if r == z3.sat else None
        self.solver_s += time.perf_counter() - t
        self.queries += 1
        return r, m

    def decide(self, e):
        self.consults += 1
        if e is True or e is False:
            return e
        k = e.get_id()
        v = self.memo.get(k)
        if v is not None:
            return v
        if z3.is_true(e):
            v = True
        elif z3.is_false(e):
            v = False
        else:
            v = z3.is_true(self.model.eval(e, model_completion=True))
            self.pc.append(e if v else z3.Not(e))
            self.literals += 1
        self.memo[k] = v
        return v

    def choose(self, name, n):
        """finite selector 0 <= v < n (global domain constraint, added once)"""
        self.consults += 1
        if n <= 1:
            return 0
        v = self.int(name)
        key = (name, n)
        if key not in self.doms:
            self.doms.add(key)
            self.s.add(v >= 0, v < n)
        val = self.model.eval(v, model_completion=True).as_long()
        if not (0 <= val < n):
            val = 0
        self.pc.append(v == val)
        self.literals += 1
        return val

    def value(self, e):
        """concrete value of an int term under the current model WITHOUT recording it
        (only for reporting)."""
        return self.model.eval(e, model_completion=True)

    def assignment(self, model):
        out = {}
        for name, c in self.vars.items():
            v = model.eval(c, model_completion=True)
            if z3.is_bool(c):
                out[name] = bool(z3.is_true(v))
            else:
                out[name] = v.as_long()
        return out

    # -- exploration -------------------------------------------------------
    def explore(self, run, max_paths=10**9, deadline=None, on_path=None):
        """run(ctx) -> Verdict.  Returns dict(stats), list(candidates)."""
        candidates = []
        known_seen = {}
        tags = {}
        nontrivial = 0
        samples = []
        t0 = time.perf_counter()
        stop_reason = None
        while True:
            if self.paths >= max_paths:
                stop_reason = "max_paths"
                break
            if deadline is not None and time.time() > deadline:
                stop_reason = "deadline"
                break
            r, m = self._check()
            if r == z3.unsat:
                self.exhaustive = True
                break
            if r == z3.unknown:
                self.unknown += 1
                stop_reason = "unknown"
                break
            self.model = m
            self.pc = []
            self.memo = {}
            Ctx.cur = self
            try:
                vd = run(self)
            finally:
                Ctx.cur = None
            self.paths += 1
            pc = list(self.pc)
            for t in vd.tags:
                tags[t] = tags.get(t, 0) + 1
            if vd.nontrivial:
                nontrivial += 1
            if len(samples) < 2 and vd.info is not None:
                samples.append(vd.info)
            post = _b(vd.post)
            if not z3.is_true(post):
                neg = z3.Not(post)
                known = [(k, _b(e)) for k, e in vd.known]
                excl = [z3.Not(e) for _, e in known]
                r2, m2 = self._check(*pc, neg, *excl)
                if r2 == z3.sat:
                    candidates.append(dict(assignment=self.assignment(m2), info=vd.info))
                elif r2 == z3.unknown:
                    self.unknown += 1
                for k, e in known:
                    if z3.is_false(e):
                        continue
                    r3, m3 = self._check(*pc, neg, e)
                    if r3 == z3.sat:
                        ks = known_seen.setdefault(k, dict(count=0, witness=None))
                        ks["count"] += 1
                        if ks["witness"] is None:
                            ks["witness"] = dict(assignment=self.assignment(m3), info=vd.info)
                    elif r3 == z3.unknown:
                        self.unknown += 1
            if on_path is not None:
                on_path(self, m, vd)
            if not pc:
                self.exhaustive = True  # nothing symbolic was consulted: a single class
                break
            self.s.add(z3.Not(z3.And(pc)) if len(pc) > 1 else z3.Not(pc[0]))
        stats = dict(
            paths=self.paths,
            literals=self.literals,
            queries=self.queries,
            solver_s=round(self.solver_s, 4),
            wall_s=round(time.perf_counter() - t0, 4),
            unknown=self.unknown,
            exhaustive=self.exhaustive,
            stop_reason=stop_reason,
            tags=tags,
            nontrivial=nontrivial,
            samples=samples,
            known_seen=known_seen,
            xsamples=list(self.xsample or ()),
        )
        return stats, candidates
