"""PermSet: a set whose iteration order is chosen by the explorer.

Injected as the module-level name `set` of ovld.typemap / ovld.mro / ovld.recode / ovld.core (module globals
shadow builtins; no source change), it stands for CPython's hash-/address-dependent set iteration order: any
permutation.  Outside a controlled region (MODE[0] == "canon") it iterates in insertion order, which gives the
deterministic baseline of the differential oracle."""

import itertools

import z3

from .engine import Ctx, SymInt


def elem_key(x):
    if isinstance(x, tuple) and x and callable(x[0]):
        x = x[0]
    nm = getattr(x, "__name__", None)
    if callable(x) and not isinstance(x, type) and nm:
        return "fn_" + (nm.split("[", 1)[1] if "[" in nm else nm)
    return "ty_" + str(x)


def rank_var(ctx, x):
    name = "rank_" + elem_key(x)
    known = ctx.__dict__.setdefault("_ranks", {})
    v = known.get(name)
    if v is None:
        v = ctx.int(name)
        for o in known.values():
            ctx.s.add(v != o)
        known[name] = v
    return v

MODE = ["canon"]  # "canon" | "sym"
SITE = [0]
MAXSIZE = [3]


class PermSet(set):
    _seq = itertools.count()

    def __init__(self, it=()):
        set.__init__(self)
        self._o = {}
        for x in it:
            self.add(x)

    _cache = None

    def add(self, x):
        if x not in self._o:
            self._o[x] = next(PermSet._seq)
        self._cache = None
        set.add(self, x)

    def discard(self, x):
        self._cache = None
        set.discard(self, x)

    def remove(self, x):
        self._cache = None
        set.remove(self, x)

    def clear(self):
        self._cache = None
        set.clear(self)

    def update(self, *its):
        for it in its:
            for x in it:
                self.add(x)

    def __ior__(self, other):
        self.update(other)
        return self

    def __iand__(self, other):
        keep = [x for x in set.__iter__(self) if x in other]
        self._cache = None
        set.clear(self)
        for x in keep:
            set.add(self, x)
        return self

    def __isub__(self, other):
        self._cache = None
        for x in list(set.__iter__(self)):
            if x in other:
                set.discard(self, x)
        return self

    def _items(self):
        return sorted(set.__iter__(self), key=lambda x: self._o.get(x, 0))

    def __iter__(self):
        items = self._items()
        ctx = Ctx.cur
        if MODE[0] != "sym" or ctx is None or len(items) < 2 or len(items) > MAXSIZE[0]:
            return iter(items)
        if self._cache is not None and self._cache[0] is ctx and self._cache[1] == ctx.paths:
            return iter(self._cache[2])  # an unmodified set iterates in the same order every time
        # every element carries one symbolic rank ("position of its hash in the table"), shared by all sets;
        # a set iterates in rank order.  Comparisons are decided lazily by the solver.
        out = sorted(items, key=lambda x: SymInt(rank_var(ctx, x)))
        self._cache = (ctx, ctx.paths, out)
        return iter(out)

    def pop(self):
        for x in self:
            self.discard(x)
            return x
        raise KeyError("pop from an empty set")

    def __sub__(self, other):
        return PermSet(x for x in self._items() if x not in other)

    def __and__(self, other):
        return PermSet(x for x in self._items() if x in other)

    def __or__(self, other):
        r = PermSet(self._items())
        r.update(other)
        return r

    def copy(self):
        return PermSet(self._items())


def install():
    import ovld.core
    import ovld.mro
    import ovld.recode
    import ovld.typemap

    for mod in (ovld.typemap, ovld.mro, ovld.recode, ovld.core):
        mod.set = PermSet


def uninstall():
    import ovld.core
    import ovld.mro
    import ovld.recode
    import ovld.typemap

    for mod in (ovld.typemap, ovld.mro, ovld.recode, ovld.core):
        if "set" in vars(mod):
            del mod.set
