"""Scenario kit: type terms, generated methods, closed-form dispatch oracles."""

import itertools
import linecache

import z3

# ---------------------------------------------------------------------------
# type terms:  ("K", i) | ("obj",) | ("U", t...) | ("I", t...) | ("Ex", t) | ("SS", t)
#              | ("HM", name) | ("type", t) | ("list", t) | ("dict", t, t)


def T(i, n=None):
    return ("obj",) if (n is not None and i == n) else ("K", i)


def build(term, W, cache=None):
    """runtime annotation object for a term"""
    import ovld.types as OT

    k = term[0]
    if k == "Dep" and cache is not None and term in cache:
        return cache[term]  # a Dependent type built twice is two different types: share it within a run
    if k == "K":
        return W.K[term[1]]
    if k == "obj":
        return object
    if k == "U":
        return OT.Union[tuple(build(t, W, cache) for t in term[1:])]
    if k == "I":
        return OT.Intersection[tuple(build(t, W, cache) for t in term[1:])]
    if k == "Ex":
        return OT.Exactly[build(term[1], W, cache)]
    if k == "SS":
        return OT.StrictSubclass[build(term[1], W, cache)]
    if k == "HM":
        return OT.HasMethod[term[1]]
    if k == "type":
        return type[build(term[1], W, cache)]
    if k == "list":
        return list[build(term[1], W, cache)]
    if k == "dict":
        return dict[build(term[1], W, cache), build(term[2], W, cache)]
    if k == "raw":
        return RAW[term[1]]
    if k == "CCF":
        # a class_check type made by a FACTORY (all such types share one code object and differ in their closure): subclasses of the class
        from ovld import class_check

        return class_check(_ccf_condition(build(term[1], W, cache)))
    if k == "any":
        import typing

        return typing.Any
    if k == "Lit":
        import typing

        return OT.normalize_type(typing.Literal[tuple(term[1:])], None)
    if k == "tuple":
        return OT.normalize_type(tuple[tuple(build(t, W, cache) for t in term[1:])], None)
    if k == "tupvar":
        return OT.normalize_type(tuple[build(term[1], W, cache), ...], None)      # homogeneous, any length
    if k == "Dep":
        from ovld.dependent import Dependent

        d = Dependent[build(term[1], W, cache), PREDS[term[2]]]
        if cache is not None:
            cache[term] = d
        return d
    raise ValueError(term)


import typing as _typing

RAW = {"list": list, "dict": dict, "tuple": tuple, "int": int, "str": str, "bool": bool, "type": type,
       "typing.List": _typing.List, "typing.Dict": _typing.Dict}


def _p0(x):
    return True


def _p1(x):
    return True


def _p2(x):
    return False


PREDS = [_p0, _p1, _p2]


def _ccf_condition(base):
    def below(cls):
        return isinstance(cls, type) and issubclass(cls, base)
    return below


def term_str(term):
    k = term[0]
    if k == "K":
        return f"K{term[1]}"
    if k == "obj":
        return "object"
    if k == "U":
        return "Union[" + ", ".join(map(term_str, term[1:])) + "]"
    if k == "I":
        return "Intersection[" + ", ".join(map(term_str, term[1:])) + "]"
    if k == "Ex":
        return f"Exactly[{term_str(term[1])}]"
    if k == "SS":
        return f"StrictSubclass[{term_str(term[1])}]"
    if k == "HM":
        return f"HasMethod[{term[1]!r}]"
    if k == "type":
        return f"type[{term_str(term[1])}]"
    if k == "list":
        return f"list[{term_str(term[1])}]"
    if k == "dict":
        return f"dict[{term_str(term[1])}, {term_str(term[2])}]"
    if k == "raw":
        return term[1]
    if k == "any":
        return "Any"
    if k == "CCF":
        return f"class_check(below({term_str(term[1])}))"
    if k == "Lit":
        return "Literal[" + ", ".join(map(repr, term[1:])) + "]"
    if k == "tuple":
        return "tuple[" + ", ".join(map(term_str, term[1:])) + "]"
    if k == "tupvar":
        return f"tuple[{term_str(term[1])}, ...]"
    if k == "Dep":
        return f"Dependent[{term_str(term[1])}, p{term[2]}]"
    return repr(term)


def member(term, i, W, hm=None):
    """z3: an instance whose class is K_i (i == W.n: a plain object()) is an instance of term,
    by the *documented* meaning of each constructor (independent of ovld's own checks)."""
    k = term[0]
    if k == "K":
        return W.rel(i, term[1])
    if k == "obj":
        return z3.BoolVal(True)
    if k == "U":
        return z3.Or([member(t, i, W, hm) for t in term[1:]])
    if k == "I":
        return z3.And([member(t, i, W, hm) for t in term[1:]])
    if k == "Ex":
        t = term[1]
        if t[0] == "K":
            return z3.BoolVal(i == t[1])
        if t[0] == "obj":
            return z3.BoolVal(i == W.n)
        raise ValueError(term)
    if k == "SS":
        t = term[1]
        if t[0] == "K":
            return z3.And(W.rel(i, t[1]), z3.BoolVal(i != t[1]))
        if t[0] == "obj":
            return z3.BoolVal(i != W.n)
        raise ValueError(term)
    if k == "HM":
        return hm(i, term[1])
    if k == "CCF":
        return member(term[1], i, W, hm)
    if k in ("type", "list", "dict"):
        return z3.BoolVal(False)  # an instance of a harness class is never a type / list / dict
    if k == "Dep":
        # Dependent[bound, p]: an instance of the bound on which p holds; p0/p1 are constantly true, p2 constantly false, the flag
        # predicates are false on instances that carry no flag
        return z3.And(member(term[1], i, W, hm), z3.BoolVal(term[2] in (0, 1)))
    raise ValueError(term)


# ---------------------------------------------------------------------------
# generated methods

_SRC_COUNT = itertools.count()


class MethodSet:
    """Source text for a set of methods, compiled once; exec'd afresh for every run so that each
    run works on brand-new function objects and a brand-new globals dict (ovld writes mangled
    names into fn.__globals__)."""

    def __init__(self, specs, extra_src=""):
        """specs: list of dict(
              pos=[(name, term, has_default)], kw=[(name, term, has_default)], posonly=int (count),
              body=str  -- python statements; may use LOG, M (method index), recurse, call_next, F
              selfarg=bool)"""
        self.specs = specs
        lines = ["from ovld import recurse, call_next", extra_src]
        for m, sp in enumerate(specs):
            params = []
            if sp.get("selfarg"):
                params.append("self")
            npo = sp.get("posonly", 0)
            for q, (name, term, has_def) in enumerate(sp["pos"]):
                s = f"{name}: T{m}_{name}"
                if has_def:
                    s += f" = D{m}_{name}"
                params.append(s)
                if npo and q + 1 == npo:
                    params.append("/")
            if sp.get("kw"):
                params.append("*")
                for name, term, has_def in sp["kw"]:
                    s = f"{name}: T{m}_{name}"
                    if has_def:
                        s += f" = D{m}_{name}"
                    params.append(s)
            posn = ", ".join(name for name, _, _ in sp["pos"])
            if len(sp["pos"]) == 1:
                posn += ","
            kwn = ", ".join(f"{name!r}: {name}" for name, _, _ in sp.get("kw", []))
            body = sp.get("body") or f"return {m}"
            ind = ""
            if sp.get("closure"):
                # defined inside a factory: names assigned there become closure cells of the method
                lines.append(f"def _mk{m}():")
                for ln in sp["closure"].split("\n"):
                    lines.append("    " + ln)
                ind = "    "
            lines.append(f"{ind}def h{m}({', '.join(params)}):")
            slf = "self, " if sp.get("selfarg") else "None, "
            lines.append(f"{ind}    LOG.append(({m}, ({posn}), {{{kwn}}}, {slf[:-2]}))")
            for ln in body.split("\n"):
                lines.append(ind + "    " + ln)
            if sp.get("closure"):
                lines.append(f"    return h{m}")
                lines.append(f"h{m} = _mk{m}()")
            lines.append("")
        self.src = "\n".join(lines) + "\n"
        self.filename = f"<symx-methods-{next(_SRC_COUNT)}>"
        linecache.cache[self.filename] = (len(self.src), None, self.src.splitlines(True), self.filename)
        self.code = compile(self.src, self.filename, "exec")

    def instantiate(self, W, extra=None, defaults=None):
        """returns (list of fresh functions, LOG list, namespace)"""
        ns = {"LOG": [], "__name__": "symx_methods"}
        for m, sp in enumerate(self.specs):
            for name, term, has_def in list(sp["pos"]) + list(sp.get("kw", [])):
                ns[f"T{m}_{name}"] = build(term, W)
                if has_def:
                    ns[f"D{m}_{name}"] = (defaults or {}).get((m, name), Default(m, name))
        if extra:
            ns.update(extra)
        exec(self.code, ns)
        return [ns[f"h{m}"] for m in range(len(self.specs))], ns["LOG"], ns


class Default:
    """sentinel default object, distinct per (method, parameter)"""

    __slots__ = ("m", "name")

    def __init__(self, m, name):
        self.m = m
        self.name = name

    def __repr__(self):
        return f"<default h{self.m}.{self.name}>"


def simple_spec(types, names=None, body=None, **kw):
    """positional-only-by-convention spec: one required positional per entry of `types`"""
    names = names or ["x", "y", "z", "w"][: len(types)]
    return dict(pos=[(nm, t, False) for nm, t in zip(names, types)], body=body, **kw)


# ---------------------------------------------------------------------------
# closed-form resolution oracle (docs: priority, then pointwise specificity, then recency)


class Rule:
    """The documented resolution rule over a method set with class-typed positions, as z3 formulas
    over the world's variables.  mtypes[m] = tuple of class indexes (W.n = object) for the
    *supplied* positions; P[m] = z3 int; order[m] = registration order (later wins between
    identical signatures)."""

    def __init__(self, W, mtypes, P, sigkey=None, eligible=None):
        self.W = W
        self.mtypes = mtypes
        self.P = P
        self.M = len(mtypes)
        self.sigkey = sigkey or list(mtypes)
        self.eligible = eligible or [True] * self.M  # arity / keyword filter (concrete)

    def app(self, m, argcls):
        if not self.eligible[m]:
            return z3.BoolVal(False)
        return z3.And([self.W.rel(c, t) for c, t in zip(argcls, self.mtypes[m])] + [z3.BoolVal(True)])

    def moresp(self, a, b):
        return z3.And([self.W.rel(x, y) for x, y in zip(self.mtypes[a], self.mtypes[b])] + [z3.BoolVal(True)])

    def beats(self, a, b):
        P = self.P
        if self.sigkey[a] == self.sigkey[b]:
            return z3.Or(P[a] > P[b], z3.And(P[a] == P[b], z3.BoolVal(a > b)))
        if self.mtypes[a] == self.mtypes[b]:
            # same types on the supplied positions but different signatures: the statement does
            # not rank them (don't-care) -- handled by callers through `unranked`
            return P[a] > P[b]
        return z3.Or(P[a] > P[b], z3.And(P[a] == P[b], self.moresp(a, b)))

    def wins(self, a, argcls, among=None):
        among = range(self.M) if among is None else among
        return z3.And(
            [self.app(a, argcls)]
            + [z3.Implies(self.app(b, argcls), self.beats(a, b)) for b in among if b != a]
        )

    def any_app(self, argcls, among=None):
        among = range(self.M) if among is None else among
        return z3.Or([self.app(m, argcls) for m in among] + [z3.BoolVal(False)])

    def any_win(self, argcls, among=None):
        among = list(range(self.M) if among is None else among)
        return z3.Or([self.wins(m, argcls, among) for m in among] + [z3.BoolVal(False)])


def outcome_of(call, LOG):
    """run call(); classify: ('ran', first logged method) | ('AMB',) | ('NOM',) | ('EXC', type name)"""
    del LOG[:]
    try:
        res = call()
    except TypeError as e:
        msg = str(e)
        if msg.startswith("Ambiguous resolution"):
            return ("AMB",), None
        if msg.startswith("No method"):
            return ("NOM",), None
        return ("EXC", "TypeError:" + msg[:60]), None
    except Exception as e:  # noqa: BLE001  (BaseException must propagate: engine control flow)
        return ("EXC", type(e).__name__), None
    return ("ran", LOG[0][0] if LOG else None), res


# ---------------------------------------------------------------------------
# generalised rule over arbitrary annotation terms


class GRule:
    """Documented resolution rule for methods whose supplied-position annotations are arbitrary terms.
    sup[m]   : tuple of annotation terms on the supplied positions of the call
    args     : tuple of argument descriptors (one per supplied position)
    app(t,a) : z3 -- argument a matches annotation t      le(t,u) : z3 -- t is the same as or more specific than u
    """

    def __init__(self, sup, args, P, app, le, sigkey=None, eligible=None):
        self.sup, self.args, self.P = sup, args, P
        self.M = len(sup)
        self.appf, self.lef = app, le
        self.sigkey = sigkey or list(sup)
        self.eligible = eligible or [True] * self.M
        self._app = [self._mk_app(m) for m in range(self.M)]
        self._beats = {}
        self._wins = {}

    def _mk_app(self, m):
        if not self.eligible[m]:
            return z3.BoolVal(False)
        return z3.And([self.appf(t, a) for t, a in zip(self.sup[m], self.args)] + [z3.BoolVal(True)])

    def app(self, m):
        return self._app[m]

    def moresp(self, a, b):
        return z3.And([self.lef(x, y) for x, y in zip(self.sup[a], self.sup[b])] + [z3.BoolVal(True)])

    def beats(self, a, b):
        r = self._beats.get((a, b))
        if r is None:
            P = self.P
            if self.sigkey[a] == self.sigkey[b]:
                r = z3.Or(P[a] > P[b], z3.And(P[a] == P[b], z3.BoolVal(a > b)))
            elif self.sup[a] == self.sup[b]:
                r = P[a] > P[b]
            else:
                r = z3.Or(P[a] > P[b], z3.And(P[a] == P[b], self.moresp(a, b)))
            self._beats[(a, b)] = r
        return r

    def wins(self, a, among=None):
        among = tuple(range(self.M) if among is None else among)
        r = self._wins.get((a, among))
        if r is None:
            r = z3.And([self._app[a]] + [z3.Implies(self._app[b], self.beats(a, b)) for b in among if b != a])
            self._wins[(a, among)] = r
        return r

    def any_app(self, among=None):
        among = tuple(range(self.M) if among is None else among)
        r = self._wins.get(("anyapp", among))
        if r is None:
            r = self._wins[("anyapp", among)] = z3.Or([self._app[m] for m in among] + [z3.BoolVal(False)])
        return r

    def any_win(self, among=None):
        among = tuple(range(self.M) if among is None else among)
        r = self._wins.get(("anywin", among))
        if r is None:
            r = self._wins[("anywin", among)] = z3.Or([self.wins(m, among) for m in among] + [z3.BoolVal(False)])
        return r

    def dontcare(self, among=None):
        """two applicable top-priority methods with identical supplied annotations but different signatures"""
        among = list(range(self.M) if among is None else among)
        dc = []
        for a in among:
            for b in among:
                if a < b and self.eligible[a] and self.eligible[b] and self.sup[a] == self.sup[b] and self.sigkey[a] != self.sigkey[b]:
                    top = z3.And([z3.Implies(self._app[c], self.P[a] >= self.P[c]) for c in among])
                    dc.append(z3.And(self._app[a], self._app[b], self.P[a] == self.P[b], top))
        return z3.Or(dc) if dc else z3.BoolVal(False)


def levels_mechanism(ctx, rule, regs, a, among=None):
    """Mechanism of the recorded finding C02-integer-levels, reconstructed from the model through
    decide() (its literals join the path condition).  ovld ranks a candidate by the index of the
    topological layer of each of its registered types among the *applicable registered types at that
    position* (types of ALL methods registered at the position, eligible for this call or not):
    layer(t) = (number of layers - 1) - (length of the longest chain of applicable registered types
    strictly below t).  Returns True iff method `a` has maximal priority among the applicable methods
    in `among` and, against every applicable rival of equal priority, either (other signature) its layer
    tuple is pointwise >= and different, or (identical signature) it is the later one -- i.e. exactly
    when the integer comparison makes `a` dominate although the subclass order does not.
    regs[k]: list of distinct annotation terms registered at supplied position k."""
    D = ctx.decide
    among = list(range(rule.M) if among is None else among)
    lv = []
    for pos, arg in enumerate(rule.args):
        appl = [t for t in regs[pos] if D(rule.appf(t, arg))]
        h = {}

        def height(t, appl=appl, h=h):
            if t not in h:
                below = [u for u in appl if u != t and D(rule.lef(u, t)) and not D(rule.lef(t, u))]
                h[t] = 1 + max((height(u) for u in below), default=-1)
            return h[t]

        L = 1 + max((height(t) for t in appl), default=0)
        lv.append({t: L - 1 - height(t) for t in appl})

    def lt(m):
        return tuple(lv[k][rule.sup[m][k]] for k in range(len(rule.args)))

    appc = {m: rule.eligible[m] and all(rule.sup[m][k] in lv[k] for k in range(len(rule.args))) for m in among}
    if not appc.get(a):
        return False
    P = rule.P
    for b in among:
        if b == a or not appc[b]:
            continue
        if D(P[b] > P[a]):
            return False
        if D(P[b] == P[a]):
            if rule.sigkey[a] == rule.sigkey[b]:
                if b > a:
                    return False
            else:
                la, lb = lt(a), lt(b)
                if not (all(x >= y for x, y in zip(la, lb)) and la != lb):
                    return False
    return True


def class_rule(W, mtypes, argcls, P, sigkey=None, eligible=None):
    """GRule for plain class annotations given as class indexes (W.n = object)"""
    n = W.n
    return GRule([tuple(t for t in mt) for mt in mtypes], tuple(argcls), P,
                 app=lambda t, c: W.rel(c, t), le=lambda t, u: W.rel(t, u), sigkey=sigkey, eligible=eligible)


def _pflag(x):
    return bool(getattr(x, "flag", False))


def _pflag2(x):
    return bool(getattr(x, "flag2", False))


PREDS += [_pflag, _pflag2]  # indexes 3, 4: predicates reading an attribute of the instance


def full_outcome(call, LOG):
    """run call(); returns (chain of entered methods, terminal): terminal = ('ret', repr) | ('AMB',) | ('NOM',) | ('EXC', ..)"""
    del LOG[:]
    try:
        res = call()
        term = ("ret", repr(res))
    except TypeError as e:
        msg = str(e)
        if msg.startswith("Ambiguous resolution"):
            term = ("AMB",)
        elif msg.startswith("No method"):
            term = ("NOM",)
        else:
            term = ("EXC", "TypeError:" + msg[:70])
    except RecursionError:
        term = ("LOOP",)
    except Exception as e:  # noqa: BLE001
        term = ("EXC", type(e).__name__ + ":" + str(e)[:70])
    return [e[0] for e in LOG], list(term)
