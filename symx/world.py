"""Symbolic class hierarchy (environment stub) and its realisation as real classes."""

import z3

from .engine import SymInt, current


class SymMeta(type):
    """Metaclass of the harness classes K0..Kn-1: issubclass / isinstance answer from the
    solver variables R[i][j] ("Ki is a subclass of Kj")."""

    def __subclasscheck__(cls, sub):
        i = getattr(sub, "_idx", None)
        if i is None or getattr(sub, "_world", None) is not cls._world:
            return False
        if i == cls._idx:
            return True
        return current().decide(cls._world.R[i][cls._idx])

    def __instancecheck__(cls, obj):
        return issubclass(type(obj), cls)

    def __getattr__(cls, name):
        # symbolic "has this method": only for the names the world declares
        w = cls.__dict__.get("_world")
        if w is not None and name in w.hm_names:
            if current().decide(w.H[name][cls._idx]):
                return _a_method
        raise AttributeError(name)

    def __repr__(cls):
        return f"<class K{cls._idx}>"


def _a_method(self, *a):
    return None


REAL_MODE = ["inherit"]   # "inherit": real base classes;  "abc": unrelated ABCs related only through ABC.register


def realize_abc(rel, n, extra_ns=None):
    """the same relation realised WITHOUT inheritance: every class is an (instantiable) abc.ABC and Ki is made a
    virtual subclass of Kj by Kj.register(Ki).  ovld must reach the same answers: it may consult issubclass /
    isinstance only, never __mro__ or __bases__."""
    import abc

    cls = []
    for i in range(n):
        ns = {"_idx": i}
        if extra_ns:
            ns.update(extra_ns(i))
        cls.append(abc.ABCMeta(f"K{i}", (), ns))
    for i in range(n):
        for j in range(n):
            if i != j and rel[i][j]:
                cls[j].register(cls[i])
    return cls


def realize_hook(rel, n, extra_ns=None):
    """realisation of an arbitrary reflexive-transitive relation, including two distinct classes that are subclasses
    of each other (structurally identical protocols): ABCs answering issubclass through __subclasshook__"""
    import abc

    cls = []
    for i in range(n):
        ns = {"_idx": i}
        if extra_ns:
            ns.update(extra_ns(i))

        def hook(c, sub, i=i):
            j = getattr(sub, "_idx", None)
            if j is None:
                return NotImplemented
            return bool(rel[j][i])
        ns["__subclasshook__"] = classmethod(hook)
        cls.append(abc.ABCMeta(f"K{i}", (), ns))
    return cls


def realize(rel, n, extra_ns=None):
    if any(rel[i][j] and rel[j][i] for i in range(n) for j in range(n) if i != j):
        return realize_hook(rel, n, extra_ns)
    if REAL_MODE[0] == "abc":
        return realize_abc(rel, n, extra_ns)
    return _realize_inherit(rel, n, extra_ns)


def _realize_inherit(rel, n, extra_ns=None):
    """real classes C0..Cn-1 whose issubclass relation equals rel (a partial order).
    Classes are created in order of increasing number of superclasses; direct bases are the
    minimal strict superclasses, most specific first.  (Checked in round 0 on all 219 / 4231
    labelled posets with 4 / 5 elements: no MRO conflict, relation reproduced exactly.)"""
    order = sorted(range(n), key=lambda i: (sum(1 for j in range(n) if rel[i][j]), i))
    cls = {}
    for i in order:
        supers = [j for j in range(n) if j != i and rel[i][j]]
        direct = [j for j in supers if not any(k != j and rel[k][j] for k in supers)]
        direct.sort(key=lambda j: order.index(j), reverse=True)
        ns = {"_idx": i}
        if extra_ns:
            ns.update(extra_ns(i))
        cls[i] = type(f"K{i}", tuple(cls[j] for j in direct) or (object,), ns)
    return [cls[i] for i in range(n)]


class World:
    """n harness classes with a symbolic (or, for replay, real) subclass relation, and
    integer priorities p0..  `object` has index n and sits above everything."""

    def __init__(self, ex, n, nprio=0, real=False, extra_ns=None, prefix="", hm_names=(), antisym=True):
        self.ex = ex
        self.hm_names = tuple(hm_names)
        self.n = n
        self.real = real
        self.prefix = prefix
        self.R = [
            [ex.bool(f"{prefix}r_{i}_{j}") if i != j else z3.BoolVal(True) for j in range(n)]
            for i in range(n)
        ]
        valid = []
        for i in range(n):
            for j in range(n):
                if i == j:
                    continue
                if i < j and antisym:
                    valid.append(z3.Not(z3.And(self.R[i][j], self.R[j][i])))
                for k in range(n):
                    if k != i and k != j:
                        valid.append(z3.Implies(z3.And(self.R[i][j], self.R[j][k]), self.R[i][k]))
        self.H = {}
        for name in self.hm_names:
            self.H[name] = [ex.bool(f"{prefix}has_{name}_{i}") for i in range(n)]
            for i in range(n):
                for j in range(n):
                    if i != j:  # inheritance: a subclass of a class that has the method has it
                        valid.append(z3.Implies(z3.And(self.R[i][j], self.H[name][j]), self.H[name][i]))
        if valid:
            ex.s.add(*valid)
        self.valid = valid
        self.P = [ex.int(f"{prefix}p{m}") for m in range(nprio)]
        if real:
            f = ex.forced
            rel = [[i == j or bool(f.get(f"{prefix}r_{i}_{j}", False)) for j in range(n)] for i in range(n)]
            self.relc = rel
            base_ns = extra_ns

            def extra_ns(i, base_ns=base_ns):
                ns = dict(base_ns(i)) if base_ns else {}
                for name in self.hm_names:
                    if f.get(f"{prefix}has_{name}_{i}", False):
                        ns[name] = _a_method
                return ns

            self.K = realize(rel, n, extra_ns)
            self.prio = [int(f.get(f"{prefix}p{m}", 0)) for m in range(nprio)]
        else:
            self.K = []
            for i in range(n):
                ns = {"_idx": i, "_world": self}
                if extra_ns:
                    ns.update(extra_ns(i))
                self.K.append(SymMeta(f"K{i}", (), ns))
            self.prio = [SymInt(p) for p in self.P]
        self.inst = [K() for K in self.K]

    def cls(self, i):
        return object if i == self.n else self.K[i]

    def has(self, i, name):
        """z3: class i has method `name` (object never has a harness method)"""
        if i == self.n:
            return z3.BoolVal(False)
        return self.H[name][i]

    def rel(self, i, j):
        """z3: class i is a subclass of class j (index n = object)"""
        if j == self.n:
            return z3.BoolVal(True)
        if i == self.n:
            return z3.BoolVal(False)
        return self.R[i][j]

    def describe(self, assignment):
        n = self.n
        p = self.prefix
        sub = {
            f"K{i}": [f"K{j}" for j in range(n) if j != i and assignment.get(f"{p}r_{i}_{j}")]
            for i in range(n)
        }
        return dict(subclass_of=sub, priorities=[assignment.get(f"{p}p{m}", 0) for m in range(len(self.P))])
