"""Fault injection / scheduling points on executed source lines of ovld (sys.monitoring LINE events).

No source hook: the callback is registered for LINE events, returns DISABLE for every location outside
ovld/*.py and the generated "<ovld:...>" files, and calls the armed hook for the others."""

import os
import sys

TOOL = 4
_state = dict(installed=False, hook=None, root=None)


class InjectedFault(BaseException):
    """stands for an interrupt (KeyboardInterrupt-like) arriving between two source lines"""


def _cb(code, lineno):
    fn = code.co_filename
    if not (fn.startswith(_state["root"]) or fn.startswith("<ovld")):
        return sys.monitoring.DISABLE
    h = _state["hook"]
    if h is not None:
        h(code, lineno)
    return None


def install():
    if _state["installed"]:
        return
    import ovld

    _state["root"] = os.path.dirname(os.path.realpath(ovld.__file__)) + os.sep
    mon = sys.monitoring
    mon.use_tool_id(TOOL, "symx-lines")
    mon.register_callback(TOOL, mon.events.LINE, _cb)
    mon.set_events(TOOL, mon.events.LINE)
    _state["installed"] = True


class Armed:
    """with Armed(hook): ...   -- hook(code, lineno) is called at every executed ovld line inside the block"""

    def __init__(self, hook):
        self.hook = hook

    def __enter__(self):
        install()
        _state["hook"] = self.hook
        return self

    def __exit__(self, *a):
        _state["hook"] = None
        return False


class CrashAt:
    """raise InjectedFault when the k-th ovld line (1-based) of the armed region is about to execute"""

    def __init__(self, k, exc=InjectedFault, at=None):
        """k: global line index; at=(location text, occurrence): replay addressing that survives small changes in the
        number of lines executed before the crash point (ovld iterates sets of fresh function objects)"""
        self.k = k
        self.n = 0
        self.fired = None
        self.occurrence = None
        self.exc = exc
        self.at = at
        self.seen = {}
        self.stack = []

    def __call__(self, code, lineno):
        self.n += 1
        loc = f"{os.path.basename(code.co_filename) if not code.co_filename.startswith('<ovld') else '<generated>'}:{lineno} in {code.co_name.split('[')[0]}"
        occ = self.seen[loc] = self.seen.get(loc, 0) + 1
        hit = (self.n == self.k) if self.at is None else (loc == self.at[0] and occ == self.at[1])
        if hit:
            self.fired = loc
            self.occurrence = occ
            fr, names = sys._getframe(2), []
            while fr is not None and len(names) < 40:
                if fr.f_code.co_filename.startswith(_state["root"]):
                    names.append(fr.f_code.co_name)
                fr = fr.f_back
            self.stack = names           # ovld functions active when the fault arrives (innermost first)
            raise self.exc(loc)
